# C03: SassScript evaluation follows the scoping and control-flow rules.
#   A: programs enumerated/simulated by MC_Eval, expectation computed by Eval.tla, compiled by grass,
#      declarations + logger deliveries compared structurally.
#   B: scope events (hooks H1) of generated programs and of the golden corpus validated by Trace_Scopes.
import json
import os

from . import common as C
from . import evalcmp

PID = "C03"

CFG = """SPECIFICATION Spec
CONSTANTS
  MaxLen = %d
  MaxDepth = %d
  Profile = "%s"
  Fuel = 6
  Steer = %s
  WithImport = %s
CONSTRAINT Closable
INVARIANT EmitCase
CHECK_DEADLOCK FALSE
"""

# (profile, MaxLen, MaxDepth, steer)
QUICK = [("scope", 5, 2, "FALSE"), ("scope2", 5, 2, "TRUE"), ("closure", 8, 2, "TRUE"), ("control", 4, 2, "TRUE"),
         ("args", 4, 2, "TRUE"), ("args2", 5, 2, "TRUE"), ("loopret", 6, 3, "TRUE"), ("ops", 2, 1, "TRUE")]
THOROUGH = [("scope", 6, 2, "FALSE"), ("scope", 7, 3, "TRUE"), ("scope2", 6, 2, "TRUE"), ("closure", 9, 2, "TRUE"),
            ("control", 5, 2, "TRUE"), ("args", 5, 2, "TRUE"), ("args2", 6, 2, "TRUE"), ("loopret", 7, 3, "TRUE"), ("ops", 3, 2, "TRUE")]
SIM = {"quick": (400, 40), "thorough": (8000, 60)}


def generate(ctx, plan, sim):
    cases = []
    for prof, ml, md, steer in plan:
        r = C.tlc("MC_Eval", cfg_text=CFG % (ml, md, prof, steer, "FALSE"), workers=10, timeout=3000, metaname="eval-" + prof)
        C.tlc_must_pass(r, "MC_Eval/" + prof)
        ctx.add_tlc(r)
        for c in r.cases:
            c["profile"] = prof
        cases.extend(r.cases)
    if sim:
        num, depth = sim
        r = C.tlc("MC_Eval", cfg_text=CFG % (16, 4, "full", "TRUE", "FALSE"), workers=8, simulate=num, depth=depth,
                  seed=ctx.seed, timeout=3000, metaname="eval-sim")
        if r.rc not in (0,):
            C.tlc_must_pass(r, "MC_Eval/simulate")
        ctx.add_tlc(r)
        for c in r.cases:
            c["profile"] = "full-sim"
        cases.extend(r.cases)
    seen = set()
    out = []
    for c in cases:
        k = "\n".join(c["scss"])
        if k in seen or c["k"] == "unknown":
            continue
        seen.add(k)
        out.append(c)
    return out


def src(c, syntax="scss"):
    return "\n".join(c[syntax]) + "\n"


def run(ctx):
    ctx.rule = ("programs built instruction by instruction by MC_Eval (profiles scope/scope2/closure/control/args/ops "
                "exhaustively within length/depth bounds, plus seeded simulation of the union profile); expectation "
                "= Eval.tla; non-trivial = distinct program whose expectation is not 'unknown' (error expectations "
                "count: a stale lookup shows as CSS where an error is due)")
    plan = QUICK if ctx.tier == "quick" else THOROUGH
    cases = generate(ctx, plan, SIM[ctx.tier])
    jobs = [{"id": i, "src": src(c), "trace": (i % (1 if ctx.tier == "thorough" else 4) == 0)} for i, c in enumerate(cases)]
    res = C.run_cases(jobs, PID)
    nobs = 0
    for i, (c, r) in enumerate(zip(cases, res)):
        ctx.count(c["scss"])
        if c["out"]:
            nobs += 1
        why = evalcmp.compare(c, r)
        if why:
            ctx.violation(why, {"scss": src(c), "profile": c["profile"], "expected": {"k": c["k"], "out": c["out"]},
                                "observed": {k: r.get(k) for k in ("outcome", "css", "log", "err", "panic")},
                                "spec": "Eval.Run"})
    ctx.extra["programs_with_observations"] = nobs
    for c in cases[:2] + cases[-2:]:
        ctx.sample({"scss": c["scss"], "expect": c["k"], "out": c["out"]})

    # ---- binding B: scope traces
    co = C.corpus()
    step = 1 if ctx.tier == "thorough" else 3
    cjobs = [{"id": "corpus-%d" % i, "src": c["input"], "trace": True} for i, c in enumerate(co) if i % step == 0]
    cres = C.run_cases(cjobs, PID + "-corpus")
    tpath = os.path.join(C.WORK, "trace-C03-%d.ndjson" % os.getpid())
    srcs = {}
    nev = 0
    ncase = 0
    with open(tpath, "w") as f:
        k = 0
        for jl, rl in ((jobs, res), (cjobs, cres)):
            for j, r in zip(jl, rl):
                ev = r.get("scope")
                if not ev:
                    continue
                k += 1
                srcs[k] = j["src"]
                f.write(json.dumps({"e": "reset", "case": k}) + "\n")
                for e in ev:
                    f.write(e + "\n")
                nev += len(ev)
                ncase += 1
    if nev:
        tr = C.tlc("Trace_Scopes", workers=1, dfs=True, env={"TRACE": tpath}, timeout=3000, heap="8g")
        ctx.add_tlc(tr)
        if tr.rc != 0 and not any(k == "REJECT" for k, _ in tr.prints):
            C.log(tr.out[-3000:])
            raise C.ToolError("Trace_Scopes failed")
        for kind, v in tr.prints:
            if kind == "REJECT":
                ctx.violation("scope operation not explained by Scopes: %s" % json.dumps(v["event"]),
                              {"scss": srcs.get(v["case"]), "event": v["event"], "spec": "Trace_Scopes.Explained"})
        ctx.validated += ncase
    ctx.extra["scope_events_validated"] = nev
    os.remove(tpath)
    ctx.assumptions += [
        "values restricted to integers, identifiers/quoted strings, booleans, null, flat lists and maps (decimals/units: C07/C08)",
        "recursive mixins/functions are not generated (bounded programs only); @while is judged only when it ends within 6 turns in the specification",
        "scope events carry ground-truth frame positions computed by the hook itself (cfg grass_verif)",
    ]
