# Shared machinery of /verif/bin/check: build, TLC driver, worker supervisor,
# evidence / replay / known-findings plumbing.  python3 stdlib only.
import hashlib
import json
import os
import re
import resource
import shutil
import subprocess
import sys
import time

ROOT = os.path.dirname(os.path.dirname(os.path.abspath(__file__)))
REPO = os.environ.get("VERIF_REPO", "/repo")
SPEC = os.path.join(ROOT, "spec")
WORK = os.path.join(ROOT, "work")
HARNESS = os.path.join(ROOT, "harness")
WORKER = os.path.join(HARNESS, "target", "debug", "gworker")
NCPU = os.cpu_count() or 4


class ToolError(Exception):
    pass


def log(*a):
    print(*a, file=sys.stderr, flush=True)


def sh(cmd, **kw):
    return subprocess.run(cmd, shell=isinstance(cmd, str), **kw)


# ------------------------------------------------------------------ build

_built = False


def build_harness():
    """(Re)build the worker against the current working tree of the repository, hooks on."""
    global _built
    if _built:
        return
    lock = os.path.join(HARNESS, "Cargo.lock")
    if not os.path.exists(lock):
        shutil.copy(os.path.join(REPO, "Cargo.lock"), lock)
    env = dict(os.environ, CARGO_NET_OFFLINE="true")
    p = subprocess.run(["cargo", "build", "--offline", "--quiet"], cwd=HARNESS, env=env,
                       stdout=subprocess.PIPE, stderr=subprocess.STDOUT, text=True)
    if p.returncode != 0:
        log(p.stdout[-4000:])
        raise ToolError("harness build failed")
    _built = True


def build_cli():
    """Build the grass binary from the repository's working tree into a /verif-local target dir."""
    tdir = os.path.join(HARNESS, "target-cli")
    env = dict(os.environ, CARGO_NET_OFFLINE="true")
    p = subprocess.run(["cargo", "build", "--offline", "--quiet", "--manifest-path",
                        os.path.join(REPO, "Cargo.toml"), "-p", "grass", "--bin", "grass",
                        "--target-dir", tdir], env=env,
                       stdout=subprocess.PIPE, stderr=subprocess.STDOUT, text=True)
    if p.returncode != 0:
        log(p.stdout[-4000:])
        raise ToolError("cli build failed")
    return os.path.join(tdir, "debug", "grass")


# ------------------------------------------------------------------ TLC

class TlcResult:
    def __init__(self):
        self.cases = []
        self.generated = 0
        self.distinct = 0
        self.rc = 0
        self.out = ""
        self.coverage = {}
        self.violated = None
        self.wall = 0.0
        self.prints = []


_case_re = re.compile(r'^<<"(CASE|REJECT|NOTE)", (.*)>>$')


def _unwrap(payload):
    # payload is a TLA+ string literal "...." holding JSON with \" escapes; the TLA+
    # string escapes coincide with JSON string escapes, so decode twice
    return json.loads(json.loads(payload))


def tlc(module, cfg=None, workers=4, simulate=None, depth=None, seed=None, env=None,
        timeout=900, metaname=None, dfs=False, heap=None, coverage=False, quiet_fail=False, cfg_text=None):
    """Run TLC on spec/<module>.tla; collect CASE/REJECT lines and statistics."""
    os.makedirs(WORK, exist_ok=True)
    cfg_path = os.path.join(SPEC, (cfg or module) + ".cfg")
    if cfg_text is not None:
        cfg_path = os.path.join(WORK, "cfg-%s-%d-%s.cfg" % (module, os.getpid(), hashlib.sha1(cfg_text.encode()).hexdigest()[:8]))
        with open(cfg_path, "w") as f:
            f.write(cfg_text)
    meta = os.path.join(WORK, "tlc-" + (metaname or module) + "-%d" % os.getpid())
    shutil.rmtree(meta, ignore_errors=True)
    cmd = ["timeout", str(timeout), "tlc", "-workers", str(workers), "-metadir", meta, "-cleanup",
           "-noGenerateSpecTE", "-config", cfg_path]
    if simulate:
        cmd += ["-simulate", "num=%d" % simulate]
        if depth:
            cmd += ["-depth", str(depth)]
        if seed is not None:
            cmd += ["-seed", str(seed)]
    if coverage:
        cmd += ["-coverage", "1"]
    cmd += [os.path.join(SPEC, module + ".tla")]
    e = dict(os.environ)
    jopts = "-Xss1g"
    if dfs:
        jopts += " -Dtlc2.tool.queue.IStateQueue=StateDeque"
    if heap:
        jopts += " -Xmx" + heap
    e["JAVA_TOOL_OPTIONS"] = jopts
    if env:
        e.update({k: str(v) for k, v in env.items()})
    t0 = time.time()
    p = subprocess.run(cmd, cwd=SPEC, env=e, stdout=subprocess.PIPE, stderr=subprocess.STDOUT,
                       text=True, errors="replace")
    r = TlcResult()
    r.wall = time.time() - t0
    r.rc = p.returncode
    r.out = p.stdout
    shutil.rmtree(meta, ignore_errors=True)
    if cfg_text is not None:
        try:
            os.remove(cfg_path)
        except OSError:
            pass
    _raw_cases = []
    for line in p.stdout.splitlines():
        m = _case_re.match(line)
        if m:
            try:
                v = _unwrap(m.group(2))
            except Exception:
                try:
                    v = json.loads(m.group(2))
                except Exception:
                    v = m.group(2)
            if m.group(1) == "CASE":
                r.cases.append(v)
                _raw_cases.append(m.group(2))
            else:
                r.prints.append((m.group(1), v))
            continue
        m = re.match(r"^(\d+) states generated, (\d+) distinct states found", line)
        if m:
            r.generated = int(m.group(1))
            r.distinct = int(m.group(2))
        m = re.match(r"^The number of states generated: (\d+)", line)
        if m:
            r.generated = int(m.group(1))
        m = re.match(r"^<(\w+) line \d+, col \d+ to line \d+, col \d+ of module (\w+)>: (\d+):(\d+)", line)
        if m:
            r.coverage[m.group(2) + "." + m.group(1)] = int(m.group(4))
        if "is violated" in line or "Error: " in line and r.violated is None:
            if "is violated" in line or "Error:" in line:
                r.violated = (r.violated or "") + line + "\n"
    # TLC's workers print in no fixed order: cases are handed on in a canonical order, so that seeded sampling further down
    # picks the same cases on every run
    if len(_raw_cases) == len(r.cases) and r.cases:
        order = sorted(range(len(_raw_cases)), key=_raw_cases.__getitem__)
        r.cases = [r.cases[i] for i in order]
    if r.rc == 124:
        raise ToolError("TLC timed out on %s" % module)
    if r.rc != 0 and not quiet_fail:
        # 12 = safety violation, 13 = liveness; others are tool errors
        pass
    return r


def tlc_must_pass(r, what):
    if r.rc != 0:
        log(r.out[-6000:])
        raise ToolError("TLC failed on %s (rc=%d)" % (what, r.rc))


# ------------------------------------------------------------------ workers

def _limits(mem):
    def f():
        resource.setrlimit(resource.RLIMIT_AS, (mem, mem))
        resource.setrlimit(resource.RLIMIT_CORE, (0, 0))
    return f


class _W:
    pass


def run_cases(cases, tag, nworkers=None, watchdog=10.0, mem=3 << 30, retry_slow=True, cwd=None):
    """Execute cases (dicts) on worker processes; returns results aligned with cases.
    A hang (no result within `watchdog` seconds) yields outcome 'timeout', a dead worker
    outcome 'crash'.  Slow cases are re-run once alone with a 6x budget before they count."""
    build_harness()
    n = len(cases)
    if n == 0:
        return []
    nworkers = nworkers or max(1, min(NCPU - 2, 14))
    nworkers = max(1, min(nworkers, (n + 49) // 50))
    d = os.path.join(WORK, "run-%s-%d" % (tag, os.getpid()))
    shutil.rmtree(d, ignore_errors=True)
    os.makedirs(d)
    # round-robin so that expensive neighbours spread out
    chunks = [[] for _ in range(nworkers)]
    for i, c in enumerate(cases):
        chunks[i % nworkers].append(i)
    ws = []
    for k, idxs in enumerate(chunks):
        w = _W()
        w.idxs = idxs
        w.inp = os.path.join(d, "in-%d.ndjson" % k)
        w.out = os.path.join(d, "out-%d.ndjson" % k)
        with open(w.inp, "w") as f:
            for i in idxs:
                f.write(json.dumps(cases[i]) + "\n")
        open(w.out, "w").close()
        w.done = 0
        w.pos = 0
        w.proc = None
        w.last = time.time()
        w.finished = False
        ws.append(w)

    def start(w):
        w.proc = subprocess.Popen([WORKER, w.inp, w.out, str(w.done)], preexec_fn=_limits(mem),
                                  stdin=subprocess.DEVNULL, stdout=subprocess.DEVNULL,
                                  stderr=subprocess.DEVNULL, cwd=cwd)
        w.last = time.time()

    def poll_lines(w):
        sz = os.path.getsize(w.out)
        if sz > w.pos:
            with open(w.out, "rb") as f:
                f.seek(w.pos)
                b = f.read(sz - w.pos)
            # only count complete lines
            nl = b.count(b"\n")
            if nl:
                last = b.rfind(b"\n") + 1
                w.pos += last
                w.done += nl
                w.last = time.time()

    def synth(w, obj):
        with open(w.out, "ab") as f:
            # drop a partial line if any
            f.truncate(w.pos)
            f.write((json.dumps(obj) + "\n").encode())
        w.pos = os.path.getsize(w.out)
        w.done += 1

    for w in ws:
        start(w)
    while not all(w.finished for w in ws):
        time.sleep(0.05)
        for w in ws:
            if w.finished:
                continue
            poll_lines(w)
            rc = w.proc.poll()
            if rc is not None:
                poll_lines(w)
                if w.done >= len(w.idxs):
                    w.finished = True
                    continue
                # died in the middle of case w.done
                synth(w, {"outcome": "crash", "rc": rc, "idx": w.done})
                if w.done >= len(w.idxs):
                    w.finished = True
                else:
                    start(w)
            elif time.time() - w.last > watchdog:
                w.proc.kill()
                w.proc.wait()
                poll_lines(w)
                if w.done < len(w.idxs):
                    synth(w, {"outcome": "timeout", "idx": w.done, "watchdog": watchdog})
                if w.done >= len(w.idxs):
                    w.finished = True
                else:
                    start(w)
    results = [None] * n
    for w in ws:
        with open(w.out, "r", errors="replace") as f:
            lines = f.read().splitlines()
        for j, i in enumerate(w.idxs):
            try:
                results[i] = json.loads(lines[j])
            except Exception:
                results[i] = {"outcome": "lost"}
    shutil.rmtree(d, ignore_errors=True)
    if retry_slow:
        slow = [i for i, r in enumerate(results) if r.get("outcome") in ("timeout", "crash", "lost")]
        # second chance with six times the time and twice the memory, one case per worker process at a time, at most 8 at once
        # (a regression that hangs on many inputs must not turn the check itself into a hang)
        again = slow[:40]
        if again:
            rr = run_cases([cases[i] for i in again], tag + "-retry", nworkers=min(8, len(again)), watchdog=watchdog * 6, mem=mem * 2,
                           retry_slow=False, cwd=cwd)
            for i, x in zip(again, rr):
                results[i] = x
                results[i]["retried"] = True
    return results


# ------------------------------------------------------------------ corpus

_tok = re.compile(r'''
    (?P<line_comment>//[^\n]*) |
    (?P<block_comment>/\*.*?\*/) |
    (?P<raw>r(?P<h>\#*)"(?P<rawbody>.*?)"(?P=h)) |
    (?P<str>"(?P<body>(?:[^"\\]|\\.)*)") |
    (?P<char>'(?:[^'\\]|\\.)') |
    (?P<open>[(\[{]) | (?P<close>[)\]}]) | (?P<comma>,) |
    (?P<macro>\b(?:test|error)!\s*\() |
    (?P<other>[^"'/()\[\]{},rte]+|.)
''', re.S | re.X)


def _unescape(s):
    out = []
    i = 0
    while i < len(s):
        c = s[i]
        if c != "\\":
            out.append(c)
            i += 1
            continue
        i += 1
        if i >= len(s):
            break
        c = s[i]
        i += 1
        if c == "n":
            out.append("\n")
        elif c == "t":
            out.append("\t")
        elif c == "r":
            out.append("\r")
        elif c == "0":
            out.append("\0")
        elif c == "\\":
            out.append("\\")
        elif c == '"':
            out.append('"')
        elif c == "'":
            out.append("'")
        elif c == "x":
            out.append(chr(int(s[i:i + 2], 16)))
            i += 2
        elif c == "u":
            j = s.index("}", i)
            out.append(chr(int(s[i + 1:j], 16)))
            i = j + 1
        elif c == "\n":
            while i < len(s) and s[i] in " \t\n\r":
                i += 1
        else:
            out.append("\\" + c)
    return "".join(out)


def corpus():
    """Golden corpus: (file, kind, name, input, expected, options_text) from crates/lib/tests/*.rs."""
    tdir = os.path.join(REPO, "crates", "lib", "tests")
    out = []
    for fn in sorted(os.listdir(tdir)):
        if not fn.endswith(".rs") or fn == "macros.rs":
            continue
        text = open(os.path.join(tdir, fn), encoding="utf-8").read()
        pos = 0
        while True:
            m = re.compile(r"\b(test|error)!\s*\(").search(text, pos)
            if not m:
                break
            kind = m.group(1)
            i = m.end()
            depth = 1
            args = [[]]
            # tokenise until the matching ')'
            while i < len(text) and depth > 0:
                t = _tok.match(text, i)
                if not t:
                    i += 1
                    continue
                i = t.end()
                g = t.lastgroup
                if g in ("line_comment", "block_comment"):
                    continue
                if t.group("raw") is not None:
                    args[-1].append(("s", t.group("rawbody")))
                elif t.group("str") is not None:
                    args[-1].append(("s", _unescape(t.group("body"))))
                elif t.group("open"):
                    depth += 1
                    args[-1].append(("o", t.group(0)))
                elif t.group("close"):
                    depth -= 1
                    if depth > 0:
                        args[-1].append(("o", t.group(0)))
                elif t.group("comma") and depth == 1:
                    args.append([])
                elif t.group("macro"):
                    depth += 1
                    args[-1].append(("o", t.group(0)))
                else:
                    args[-1].append(("o", t.group(0)))
            pos = i
            args = [a for a in args if any(x[1].strip() for x in a)]
            if len(args) < 3:
                continue
            name = "".join(x[1] for x in args[0] if x[0] == "o").strip()
            name = re.sub(r"#\[[^\]]*\]", "", name).strip().split()[-1] if name.strip() else ""

            def lit(a):
                ss = [x[1] for x in a if x[0] == "s"]
                other = "".join(x[1] for x in a if x[0] == "o").strip()
                if len(ss) == 1 and other == "":
                    return ss[0]
                return None
            inp = lit(args[1])
            exp = lit(args[2])
            if inp is None or exp is None:
                continue
            opts = ""
            if len(args) > 3:
                opts = "".join(x[1] for x in args[3]).strip()
            ignored = "ignore" in "".join(x[1] for x in args[0])
            out.append({"file": fn, "kind": kind, "name": name, "input": inp, "expected": exp,
                        "opts": opts, "ignored": ignored})
    return out


# ------------------------------------------------------------------ context

class Ctx:
    def __init__(self, pid, tier, seed, level="model_checking", replaying=False):
        self.pid = pid
        self.tier = tier
        self.seed = seed
        self.level = level
        self.t0 = time.time()
        self.states = 0
        self.transitions = 0
        self.validated = 0
        self.evaluations = 0
        self.nontrivial = set()
        self.samples = []
        self.violations = []
        self.known_hits = {}
        self.assumptions = []
        self.extra = {}
        self.rule = ""
        self.known = load_known(pid)
        self.coverage_actions = {}
        # replay files of earlier runs of this property are stale
        rd = os.path.join(ROOT, "replays")
        if os.path.isdir(rd) and not replaying:
            for fn in os.listdir(rd):
                if fn.startswith(pid + "-"):
                    try:
                        os.remove(os.path.join(rd, fn))
                    except OSError:
                        pass

    # --- accounting
    def add_tlc(self, r):
        self.states += r.distinct or 0
        self.transitions += r.generated or 0
        for k, v in r.coverage.items():
            self.coverage_actions[k] = self.coverage_actions.get(k, 0) + v

    def sample(self, obj, limit=6):
        if len(self.samples) < limit:
            self.samples.append(obj)

    def count(self, key, nontrivial=True):
        self.evaluations += 1
        if nontrivial:
            self.nontrivial.add(hashlib.sha1(json.dumps(key, sort_keys=True, default=str).encode()).hexdigest()[:16])

    # --- verdicts
    def violation(self, what, replay):
        """Report a violation unless a committed known finding matches it exactly."""
        for k in self.known:
            if k.get("status") == "known" and known_matches(k, what, replay):
                kid = k["id"]
                if kid not in self.known_hits:
                    self.known_hits[kid] = (k, what)
                return False
        os.makedirs(os.path.join(ROOT, "replays"), exist_ok=True)
        h = hashlib.sha1(json.dumps(replay, sort_keys=True, default=str).encode()).hexdigest()[:12]
        path = os.path.join(ROOT, "replays", "%s-%s.json" % (self.pid, h))
        with open(path, "w") as f:
            json.dump({"property": self.pid, "what": what, "replay": replay}, f, indent=1, default=str)
        if len(self.violations) < 25:
            print("VIOLATION property=%s replay=%s" % (self.pid, path), flush=True)
            log("  ", what)
        self.violations.append(path)
        return True

    def finish(self):
        for kid, (k, what) in sorted(self.known_hits.items()):
            print("KNOWN-FINDING: property=%s %s %s" % (self.pid, kid, k.get("what", "")), flush=True)
        cov = {
            "states": self.states,
            "transitions": self.transitions,
            "traces_validated_against_impl": self.validated,
            "evaluations": max(self.evaluations, 0),
            "distinct_nontrivial": len(self.nontrivial),
            "rule": self.rule,
            "samples": self.samples if self.samples else ["(none)"],
            "spec_actions_fired": self.coverage_actions,
        }
        cov.update(self.extra)
        ev = {
            "property_id": self.pid,
            "tier": self.tier,
            "seed": self.seed,
            "level": self.level,
            "coverage": cov,
            "assumptions": self.assumptions,
            "wall_s": round(time.time() - self.t0, 2),
            "violations": len(self.violations),
            "known_findings_seen": sorted(self.known_hits.keys()),
        }
        os.makedirs(os.path.join(ROOT, "evidence"), exist_ok=True)
        with open(os.path.join(ROOT, "evidence", self.pid + ".json"), "w") as f:
            json.dump(ev, f, indent=1, default=str)
        log("%s %s: %d evaluations, %d distinct non-trivial, %d states, %d validated, %d violations, %.1fs" % (
            self.pid, self.tier, self.evaluations, len(self.nontrivial), self.states, self.validated,
            len(self.violations), time.time() - self.t0))
        return 1 if self.violations else 0


# ------------------------------------------------------------------ known findings

def load_known(pid):
    p = os.path.join(ROOT, "known_findings.jsonl")
    out = []
    if os.path.exists(p):
        for line in open(p):
            line = line.strip()
            if not line or line.startswith("#"):
                continue
            try:
                k = json.loads(line)
            except Exception:
                continue
            if k.get("property") == pid:
                out.append(k)
    return out


def known_matches(k, what, replay):
    """A known finding names a deviation class and a matcher over the replay record:
    every key of k['match'] must equal (or, for '~' keys, be a regex match of) the
    replay's field of that name."""
    m = k.get("match")
    if not m:
        return False
    for key, want in m.items():
        if key.startswith("~"):
            got = replay.get(key[1:])
            if got is None or not re.search(want, got if isinstance(got, str) else json.dumps(got, sort_keys=True)):
                return False
        else:
            if replay.get(key) != want:
                return False
    return True


def generic_replay(ctx, path):
    """Re-run the case stored in a replay file against the current tree and show both sides."""
    d = json.load(open(path))
    rp = d.get("replay", {})
    job = rp.get("job")
    if job is None:
        src = rp.get("scss") or rp.get("src")
        if src is None:
            print("replay file has no runnable case; content:\n" + json.dumps(d, indent=1)[:4000])
            return 0
        job = {"id": 0, "src": src}
    res = run_cases([job], "replay")[0]
    print("WHAT:", d.get("what"))
    print("CASE:", json.dumps(job)[:2000])
    print("EXPECTED:", json.dumps(rp.get("expected") or rp.get("expect"))[:2000])
    print("OBSERVED NOW:", json.dumps({k: res.get(k) for k in ("outcome", "css", "log", "err", "panic", "stdio")})[:2000])
    return 0


def run_fresh_processes(cases, tag, par=12, watchdog=20.0, mem=3 << 30):
    """Each case in its own worker process (fresh process-wide state, fresh hash seeds)."""
    import concurrent.futures
    build_harness()
    d = os.path.join(WORK, "fresh-%s-%d" % (tag, os.getpid()))
    shutil.rmtree(d, ignore_errors=True)
    os.makedirs(d)

    def one(i):
        inp = os.path.join(d, "in-%d.ndjson" % i)
        out = os.path.join(d, "out-%d.ndjson" % i)
        with open(inp, "w") as f:
            f.write(json.dumps(cases[i]) + "\n")
        try:
            p = subprocess.run([WORKER, inp, out], preexec_fn=_limits(mem), stdin=subprocess.DEVNULL,
                               stdout=subprocess.DEVNULL, stderr=subprocess.DEVNULL, timeout=watchdog)
            with open(out) as f:
                line = f.readline()
            return json.loads(line) if line.strip() else {"outcome": "crash", "rc": p.returncode}
        except subprocess.TimeoutExpired:
            return {"outcome": "timeout"}
        except Exception as e:
            return {"outcome": "lost", "why": str(e)}
    with concurrent.futures.ThreadPoolExecutor(max_workers=par) as ex:
        res = list(ex.map(one, range(len(cases))))
    shutil.rmtree(d, ignore_errors=True)
    return res


def tlc_trace_parallel(module, tpath, nchunks=10, timeout=3000, heap="3g"):
    """Validate a (stateless, one-event-per-line) trace file with several TLC processes, each on a slice.
    Returns (sum of distinct states, sum of generated states, list of (kind, value) prints)."""
    import concurrent.futures
    lines = open(tpath).read().splitlines()
    if not lines:
        return 0, 0, []
    nchunks = max(1, min(nchunks, (len(lines) + 49) // 50))
    paths = []
    for k in range(nchunks):
        p = "%s.part%d" % (tpath, k)
        with open(p, "w") as f:
            f.write("\n".join(lines[k::nchunks]) + "\n")
        paths.append(p)

    def one(k):
        return tlc(module, workers=1, dfs=True, env={"TRACE": paths[k]}, timeout=timeout, heap=heap, metaname="%s-part%d" % (module, k))
    with concurrent.futures.ThreadPoolExecutor(max_workers=nchunks) as ex:
        rs = list(ex.map(one, range(nchunks)))
    for p in paths:
        try:
            os.remove(p)
        except OSError:
            pass
    prints = []
    for r in rs:
        if r.rc != 0 and not any(k == "REJECT" for k, _ in r.prints):
            log(r.out[-3000:])
            raise ToolError("%s failed on a trace slice" % module)
        prints.extend(r.prints)
    return sum(r.distinct for r in rs), sum(r.generated for r in rs), prints
