# C07: numbers - arithmetic, tolerance, modulo and printing, on the decimal-exact fragment.
from . import common as C
from . import cssread

PID = "C07"

CFG = """SPECIFICATION Spec
CONSTANTS
  Cats = {"lit", "fuzzy", "mod", "laws", "div", "negdiv"}
  Nums = {%s}
  Dens = {%s}
INVARIANTS PrintShape Emit
CHECK_DEADLOCK FALSE
"""
NUMS_Q = [1, 2, 3, 5, 7, 10, 22, 100, 355, 999, 1000, 12345, 99999, 100000, 123457, 999999, 1000000]
DENS_Q = [1, 2, 3, 4, 7, 8, 9, 11, 13, 16, 17, 19, 23, 29, 31, 37, 41, 43, 47, 64, 97, 113, 128, 1000, 2048]


def doubles(ctx):
    """binding B: what grass prints for a double against the exact expansion of that double (Trace_Numbers)"""
    import decimal
    import json
    import os
    import random
    rnd = random.Random(ctx.seed)
    n = 4000 if ctx.tier == "quick" else 60000
    exprs = []

    def lit():
        k = rnd.randrange(6)
        if k == 0:
            return "%d.%0*d" % (rnd.randrange(0, 3), 11, rnd.randrange(10 ** 11))          # 11 fractional digits
        if k == 1:
            return "%d.%0*d5" % (rnd.randrange(0, 100), 10, rnd.randrange(10 ** 10))        # a 5 in the 11th place
        if k == 2:
            return "%d.%d" % (rnd.randrange(0, 10 ** rnd.randrange(1, 7)), rnd.randrange(10 ** rnd.randrange(1, 9)))
        if k == 3:
            return str(rnd.randrange(1, 10 ** rnd.randrange(1, 7)))
        if k == 4:
            return "0.%0*d" % (rnd.randrange(9, 13), rnd.randrange(1, 1000))                # tiny
        return "%d.%0*d" % (rnd.randrange(10 ** 5, 10 ** 9), 6, rnd.randrange(10 ** 6))     # large with fraction
    for i in range(n):
        a, b = lit(), lit()
        k = i % 6
        if k == 0:
            exprs.append((a, float(a)))
        elif k == 1:
            exprs.append(("%s + %s" % (a, b), float(a) + float(b)))
        elif k == 2:
            exprs.append(("%s - %s" % (a, b), float(a) - float(b)))
        elif k == 3:
            exprs.append(("%s * %s" % (a, b), float(a) * float(b)))
        elif k == 4 and float(b) != 0:
            exprs.append(("math.div(%s, %s)" % (a, b), float(a) / float(b)))
        else:
            exprs.append(("-%s" % a, -float(a)))
    exprs = [(e, v) for e, v in exprs if abs(v) < 1e15]
    jobs = []
    for i, (e, v) in enumerate(exprs):
        jobs.append({"id": i, "src": "@use \"sass:math\";\na { r: %s; }\n" % e, "style": "compressed" if i % 2 else "expanded"})
    res = C.run_cases(jobs, PID + "-dbl")
    tpath = os.path.join(C.WORK, "trace-C07-%d.ndjson" % os.getpid())
    m = 0
    with open(tpath, "w") as f:
        for j, (e, v), x in zip(jobs, exprs, res):
            got = None
            if x.get("outcome") == "css":
                for _, sel, decls in cssread.flatten(cssread.parse(x["css"])):
                    if decls:
                        got = dict(decls).get("r")
            if got is None:
                ctx.violation("%s: no value printed (%s)" % (e, x.get("outcome")), {"src": j["src"], "observed": x.get("outcome")})
                continue
            d = decimal.Decimal(v)           # exact
            sign, digits, exp = d.as_tuple()
            ds = list(digits)
            if exp >= 0:
                ip, fr = ds + [0] * exp, []
            else:
                k = len(ds) + exp
                ip, fr = (ds[:k] if k > 0 else [0]), ([0] * (-k) if k < 0 else []) + ds[max(k, 0):]
            f.write(json.dumps({"id": j["id"], "neg": bool(sign), "int": ip or [0], "frac": fr, "compressed": j["style"] == "compressed",
                                "printed": got}) + "\n")
            m += 1
            ctx.count(["dbl", e])
    tr = C.tlc("Trace_Numbers", workers=1, dfs=True, env={"TRACE": tpath}, timeout=3000, heap="8g")
    ctx.add_tlc(tr)
    if tr.rc != 0 and not any(k == "REJECT" for k, _ in tr.prints):
        C.log(tr.out[-3000:])
        raise C.ToolError("Trace_Numbers failed")
    ctx.validated += m
    for kind, v in tr.prints:
        if kind == "REJECT":
            i = v["id"]
            ctx.violation("%s: the double %r must print as %s, grass printed %s" % (exprs[i][0], exprs[i][1], v["want"], (res[i].get("css") or "").strip()),
                          {"src": jobs[i]["src"], "style": jobs[i]["style"], "double": repr(exprs[i][1]), "expected": v["want"],
                           "css": res[i].get("css"), "spec": "Trace_Numbers.Allowed"})
    os.remove(tpath)
    ctx.assumptions.append("binding B trusts the harness's own IEEE-754 double arithmetic (Python floats: correctly rounded + - * / and decimal->double conversion) for the value an expression denotes")


def run(ctx):
    ctx.rule = ("TLC enumerates (MC_Numbers): literal spellings and short decimal arithmetic, tolerance comparisons at 1e-12 / 2e-11, "
                "the modulo sign table, division by zero, truths the real-valued math functions must satisfy, and math.div(a, b) for "
                "a x b lattices whose exact quotient Decimal.tla prints by long division (two admissible texts at an exact tie); each "
                "compiled expanded and compressed; non-trivial = distinct expression")
    if ctx.tier == "quick":
        nums, dens = NUMS_Q, DENS_Q
    else:
        nums = sorted(set(NUMS_Q + list(range(1, 60)) + [10 ** k + d for k in (3, 4, 5, 6) for d in (-3, -1, 0, 1, 7)] + [214748, 650001, 777777]))
        dens = sorted(set(DENS_Q + list(range(1, 130)) + [255, 256, 360, 400, 512, 625, 999, 1024, 1999, 4096]))
    r = C.tlc("MC_Numbers", cfg_text=CFG % (", ".join(map(str, nums)), ", ".join(map(str, dens))), workers=8, timeout=3000)
    C.tlc_must_pass(r, "MC_Numbers")
    ctx.add_tlc(r)
    cases = r.cases
    jobs = []
    for i, c in enumerate(cases):
        for st in ("expanded", "compressed"):
            jobs.append({"id": len(jobs), "src": "@use \"sass:math\";\na { r: %s; }\n" % c["expr"], "style": st})
    res = C.run_cases(jobs, PID)
    for i, c in enumerate(cases):
        ctx.count(c["expr"])
        for k, st in enumerate(("expanded", "compressed")):
            x = res[2 * i + k]
            ctx.validated += 1
            want = set(c[st])
            oc = x.get("outcome")
            got = None
            if oc == "error":
                got = "error"
            elif oc == "css":
                for _, sel, decls in cssread.flatten(cssread.parse(x["css"])):
                    if decls:
                        got = dict(decls).get("r")
            if c["cat"] in ("fuzzy", "mod", "laws", "lit") and st == "compressed" and got is not None:
                # the tables give the expanded spelling; compressed drops a leading zero
                want = want | {w.replace("0.", ".", 1) if w.startswith("0.") else (w.replace("-0.", "-.", 1) if w.startswith("-0.") else w) for w in want}
            if got not in want:
                ctx.violation("%s (%s): expected one of %s, got %r" % (c["expr"], st, sorted(want), got),
                              {"src": jobs[2 * i + k]["src"], "style": st, "category": c["cat"], "expected": sorted(want), "observed": got,
                               "outcome": oc, "err": (x.get("err") or {}).get("message"), "spec": "MC_Numbers.Expected"})
    for c in cases[:2] + cases[-2:]:
        ctx.sample(c)
    doubles(ctx)
    ctx.assumptions += ["only the decimal-exact fragment is decided: quotients of integers printed from their exact value, short decimals, tolerance cases far from the 1e-11 boundary; 'equals IEEE double arithmetic' for arbitrary chains and the last-digit accuracy of pow/sin/... are floating-point questions outside TLC (no reals, 32-bit integers)",
                        "at an exact rounding tie in the 11th digit both neighbours are accepted"]
