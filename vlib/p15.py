# C15: colors keep channels in range and agree across spellings and color spaces.
import json
import os
from fractions import Fraction

from . import common as C
from . import cssread
from . import numcmp

PID = "C15"

CFG = """SPECIFICATION Spec
CONSTANTS
  Levels = {%s}
  Group = "%s"
  Alphas = {%s}
INVARIANTS RoundTripLaw Emit
CHECK_DEADLOCK FALSE
"""
NAMES = json.load(open(os.path.join(os.path.dirname(os.path.abspath(__file__)), "css_colors.json")))


def decls(x):
    out = {}
    for _, sel, ds in cssread.flatten(cssread.parse(x["css"])):
        if ds:
            out.update(dict(ds))
    return out


def probe(expr):
    return ("@use \"sass:math\";\n@use \"sass:color\";\n$c: %s;\nx { r: red($c); g: green($c); b: blue($c); a: alpha($c); t: type-of($c); p: $c; }\n" % expr)


def check_channels(ctx, what, src, x, want_r, want_g, want_b, want_a, loose=False):
    """want_*: sets of admissible 8-bit values; want_a: Fraction"""
    ctx.validated += 1
    if x.get("outcome") != "css":
        ctx.violation("%s: did not compile: %s" % (what, (x.get("err") or {}).get("message") or x.get("outcome")), {"src": src})
        return
    d = decls(x)
    try:
        r, g, b = int(d["r"]), int(d["g"]), int(d["b"])
        a = Fraction(d["a"])
    except Exception:
        ctx.violation("%s: channels are not integers / alpha not a number: %r" % (what, d), {"src": src, "observed": d})
        return
    bad = []
    if not (0 <= r <= 255 and 0 <= g <= 255 and 0 <= b <= 255):
        bad.append("channel out of [0,255]")
    if not (0 <= a <= 1):
        bad.append("alpha out of [0,1]")
    if not loose and (r not in want_r or g not in want_g or b not in want_b):
        bad.append("expected rgb in %s/%s/%s" % (sorted(want_r), sorted(want_g), sorted(want_b)))
    if loose and (min(abs(r - w) for w in want_r) > 1 or min(abs(g - w) for w in want_g) > 1 or min(abs(b - w) for w in want_b) > 1):
        bad.append("expected rgb within 1 of %s/%s/%s" % (sorted(want_r), sorted(want_g), sorted(want_b)))
    if not numcmp.close(a, want_a):
        bad.append("expected alpha %s" % float(want_a))
    if bad:
        ctx.violation("%s: %s; got rgb(%d, %d, %d) alpha %s" % (what, "; ".join(bad), r, g, b, d["a"]),
                      {"src": src, "expected": {"r": sorted(want_r), "g": sorted(want_g), "b": sorted(want_b), "alpha": str(want_a)}, "observed": d,
                       "spec": "Color"})


def run(ctx):
    ctx.rule = ("TLC enumerates (MC_Color) lattice colours x function cases: exact HSL round trip, adjust-hue (incl. negative and > 360), "
                "lighten/darken/saturate/desaturate, grayscale, complement, invert, mix with weights, hwb(), opacify/transparentize/"
                "adjust-/change-/scale-color alpha arithmetic and clamping, out-of-range constructor arguments; plus all 148 names and all "
                "4096 short hex colours in every spelling; expectation = admissible channel sets and exact alpha from Color.tla; "
                "non-trivial = distinct expression")
    thorough = ctx.tier == "thorough"
    lv = [0, 51, 128, 204, 255] if not thorough else [0, 17, 51, 102, 128, 153, 204, 238, 255]
    plans = [("hsl", lv, [10]), ("alpha", [51, 153] if not thorough else [0, 51, 153, 255], [10, 8, 5, 0]), ("mix", [0, 128, 255] if not thorough else lv, [10]),
             ("hwb", [0, 60, 90, 120, 210, 300], [10])]
    for group, levels, alphas in plans:
        r = C.tlc("MC_Color", cfg_text=CFG % (", ".join(map(str, levels)), group, ", ".join(map(str, alphas))), workers=8, timeout=3000, metaname="color-" + group)
        C.tlc_must_pass(r, "MC_Color/" + group)
        ctx.add_tlc(r)
        cases = r.cases
        jobs = [{"id": i, "src": probe(c["expr"])} for i, c in enumerate(cases)]
        res = C.run_cases(jobs, PID + "-" + group)
        for c, j, x in zip(cases, jobs, res):
            ctx.count(c["expr"])
            check_channels(ctx, c["expr"], j["src"], x, set(c["r"]), set(c["g"]), set(c["b"]), Fraction(c["an"], c["ad"]), loose=c["loose"])
        ctx.sample({"expr": cases[len(cases) // 2]["expr"], "expect": {k: cases[len(cases) // 2][k] for k in ("r", "g", "b", "an", "ad")}})
    # ---- names and hex spellings: every spelling of one colour is the same colour and prints identically when compressed
    spell = []
    for name, (r, g, b) in sorted(NAMES.items()):
        spell.append((name, [name, "rgb(%d, %d, %d)" % (r, g, b), "#%02x%02x%02x" % (r, g, b), "#%02X%02X%02Xff" % (r, g, b), "rgba(%d, %d, %d, 1)" % (r, g, b)], (r, g, b)))
    hexes = [(a, b, c) for a in range(16) for b in range(16) for c in range(16)]
    if not thorough:
        hexes = hexes[::7]
    for a, b, c in hexes:
        spell.append(("#%x%x%x" % (a, b, c), ["#%x%x%x" % (a, b, c), "#%x%x%x%x%x%x" % (a, a, b, b, c, c), "rgb(%d, %d, %d)" % (17 * a, 17 * b, 17 * c), "#%X%X%Xf" % (a, b, c)], (17 * a, 17 * b, 17 * c)))
    jobs = []
    for k, (label, forms, rgb) in enumerate(spell):
        eqs = " ".join("e%d: %s == %s;" % (i, forms[0], f) for i, f in enumerate(forms))
        prints = " ".join("p%d: %s;" % (i, f) for i, f in enumerate(forms))
        jobs.append({"id": k, "style": "compressed", "src": "$c: %s;\nx { r: red($c); g: green($c); b: blue($c); a: alpha($c); %s %s }\n" % (forms[0], eqs, prints)})
    res = C.run_cases(jobs, PID + "-spell")
    for (label, forms, rgb), j, x in zip(spell, jobs, res):
        ctx.count(["spell", label])
        ctx.validated += 1
        if x.get("outcome") != "css":
            ctx.violation("%s: spellings did not compile: %s" % (label, (x.get("err") or {}).get("message")), {"src": j["src"]})
            continue
        d = decls(x)
        bad = []
        if (d.get("r"), d.get("g"), d.get("b"), d.get("a")) != (str(rgb[0]), str(rgb[1]), str(rgb[2]), "1"):
            bad.append("channels %s/%s/%s/%s expected %s" % (d.get("r"), d.get("g"), d.get("b"), d.get("a"), rgb))
        for i in range(len(forms)):
            if d.get("e%d" % i) != "true":
                bad.append("%s != %s" % (forms[0], forms[i]))
        ps = {d.get("p%d" % i) for i in range(len(forms))}
        if len(ps) != 1:
            bad.append("compressed spellings differ: %s" % sorted(str(p) for p in ps))
        if bad:
            ctx.violation("%s: %s" % (label, "; ".join(bad)), {"src": j["src"], "observed": d, "expected_rgb": rgb, "spec": "ColorNames / spellings"})
    ctx.assumptions += ["channels computed from HSL/HWB/mix may take either neighbour when the exact value lies on a .5 boundary; applying complement twice is compared within 1 per channel",
                        "the named-colour table is the checker's own (X11 list with the CSS deviations), not grass's"]
