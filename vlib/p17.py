# C17: nested @media rules merge to their logical intersection.
import json
import os
import re

from . import common as C
from . import cssread

PID = "C17"


def parse_query(t):
    t = t.strip()
    conj = True
    if re.search(r"\)\s+or\s+\(", t):
        conj = False
        parts = re.split(r"\s+or\s+", t)
    else:
        parts = re.split(r"\s+and\s+", t)
    mod, typ, conds = "", "", []
    for k, p in enumerate(parts):
        p = p.strip()
        if p.startswith("("):
            conds.append(p)
        elif k == 0:
            w = p.split()
            if len(w) == 2 and w[0].lower() in ("not", "only"):
                mod, typ = w
            elif len(w) == 1:
                typ = w[0]
            else:
                return None
        else:
            return None
    return {"mod": mod, "type": typ, "conds": conds, "conj": conj}


def parse_list(t):
    qs = [parse_query(x) for x in t.split(",")]
    return None if any(q is None for q in qs) else qs


def chain_of(css):
    """chain of @media preludes around the declaration b: c, or None when it is absent"""
    nodes = cssread.parse(css)
    flat = cssread.flatten(nodes)
    hits = [(ctx, sel) for ctx, sel, decls in flat if decls and ("b", "c") in decls]
    if not hits:
        return False, []
    if len(hits) > 1:
        return True, None
    ctx, sel = hits[0]
    chain = []
    for c in ctx:
        if not c.startswith("@media "):
            return True, None
        q = parse_list(c[len("@media "):])
        if q is None:
            return True, None
        chain.append(q)
    if sel != "a":
        return True, None
    return True, chain


def run(ctx):
    tier = ctx.tier
    ctx.rule = ("TLC enumerates every nesting of @media query lists over {no type, all, screen, print} x "
                "{-, not, only} x 8 condition sequences (+ upper-case spellings, an `or` query, interpolated "
                "preludes, 4 placements of the style rule), minus the property's exclusions; non-trivial = "
                "distinct (outer, mid, inner, shape) whose compilation was judged by Trace_Media")
    runs = [("MC_Media", None)]
    runs.append(("MC_Media", "MC_Media_lists"))
    if tier == "thorough":
        runs.append(("MC_Media", "MC_Media_triples"))
        runs.append(("MC_Media", "MC_Media_lists2"))
    cases = []
    for mod, cfg in runs:
        r = C.tlc(mod, cfg=cfg, workers=6, coverage=False, timeout=1500)
        C.tlc_must_pass(r, cfg or mod)
        ctx.add_tlc(r)
        cases.extend(r.cases)
    # de-duplicate
    seen = set()
    uniq = []
    for c in cases:
        k = c["scss"]
        if k not in seen:
            seen.add(k)
            uniq.append(c)
    cases = uniq
    jobs = [{"id": i, "src": c["scss"]} for i, c in enumerate(cases)]
    res = C.run_cases(jobs, PID)
    os.makedirs(C.WORK, exist_ok=True)
    tpath = os.path.join(C.WORK, "trace-C17-%d.ndjson" % os.getpid())
    direct = []
    n = 0
    with open(tpath, "w") as f:
        for i, (c, r) in enumerate(zip(cases, res)):
            ctx.count([c["outer"], c["mid"], c["inner"], c["shape"]])
            if r.get("outcome") != "css":
                direct.append((i, "compilation did not produce CSS: %s" % r.get("outcome")))
                continue
            try:
                present, chain = chain_of(r["css"])
            except cssread.CssSyntaxError as e:
                direct.append((i, "output is not well-formed CSS: %s" % e))
                continue
            rec = {"id": i, "outer": c["outer"], "mid": c["mid"], "inner": c["inner"], "present": bool(present),
                   "chain": chain if chain else [], "parsed": chain is not None}
            f.write(json.dumps(rec) + "\n")
            n += 1
    for i, why in direct:
        ctx.violation(why, {"scss": cases[i]["scss"], "observed": res[i], "expect": cases[i]["expect"]})
    if n:
        tr = C.tlc("Trace_Media", workers=1, dfs=True, env={"TRACE": tpath}, timeout=1500)
        ctx.add_tlc(tr)
        if tr.rc != 0 and not any(k == "REJECT" for k, _ in tr.prints):
            C.log(tr.out[-3000:])
            raise C.ToolError("Trace_Media failed")
        ctx.validated += n
        for kind, v in tr.prints:
            if kind == "REJECT":
                i = v["id"]
                ctx.violation("emitted @media structure is not the intersection / wrong classification %s" % json.dumps(v),
                              {"scss": cases[i]["scss"], "css": res[i].get("css"), "expect": cases[i]["expect"],
                               "judgement": v, "spec": "Trace_Media.Allowed"})
    for c, r in list(zip(cases, res))[:3]:
        ctx.sample({"scss": c["scss"], "expect": c["expect"], "css": r.get("css")})
    os.remove(tpath)
    ctx.assumptions += [
        "media environments: 3 media types x 8 truth assignments of 3 opaque features",
        "output is read by /verif/vlib/cssread.py, not by grass",
    ]
