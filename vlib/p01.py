# C01: compilation is total - every input yields CSS or a structured error.
import json
import os
import random

from . import common as C

PID = "C01"
LEVEL = "exploration"

CFG = """SPECIFICATION Spec
CONSTANTS
  NAtoms = %d
  MaxLen = %d
  Mode = "%s"
  MaxPos = %d
INVARIANT Emit
CHECK_DEADLOCK FALSE
"""

CORE = list("a{}:;#/* \n$@(")
VALUE = ["1", "2px", "3em", "1%", " ", ",", "(", ")", "+", "-", "*", "/", "clamp(", "min(", "calc(", "$x", "#{", "}", "\"s\"",
         "é", "-é", "red", "#abc", "!important", "1e3", ".5", "null", "[", "]", ":", "%", "&", "if(", "url(", "..."]
VALUE_SMALL = ["1", "2px", "3em", ",", "(", ")", "+", "-", "clamp(", "max(", " ", "calc("]
SELECTOR = ["a", ".b", "#c", "&", "%p", ">", "+", "~", " ", ",", ":not(", ":is(", ")", "[x]", "[x=", "]", "*", "#{", "}", "\"日本\"",
            "$s", ".", ":", "::", "@", "é", "-é", "\\", "|", "#{$s}", ":nth-child(", "2n+1", "of"]
ATRULE = ["media", "supports", "import", "use", "forward", "include", "mixin", "function", "if", "else", "each", "for",
          "at-root", "keyframes", "font-face", "charset", "extend", "error", "debug", "warn", "return", "content", " ", "(", ")",
          "{", "}", ";", "a", "$x", "\"f\"", "1", ",", ":", "and", "not", "from", "through", "in", "@", "with", "as", "*", "-é-x"]
COMMENT = ["/", "]", "*", "#", "[", " ", "\n", "{", "}"]
MUT_ATOMS = list("{}()[];:,\"'#$@&*/\\\n") + [" ", "é", "-é", "#{", "日", "/*", "//", "\t", "\r\n", "\x00", "😀", "!", "%"]

# bounded loops whose counters sit where floating-point arithmetic stops being exact (2^53, 2^62, near i64::MAX): a handful of
# iterations each, so every one of them must terminate at once
LOOPS = ["@for $i from 9007199254740992 through 9007199254740994 { a { b: $i } }\n", "@for $i from 9007199254740994 through 9007199254740990 { a { b: $i } }\n",
         "@for $i from -9007199254740993 to -9007199254740990 { a { b: $i } }\n", "@for $i from 4611686018427387904 to 4611686018427387907 { a { b: c } }\n",
         "@for $i from 18014398509481984 to 18014398509481990 { a { b: $i } }\n", "@for $i from 9007199254740990 through 9007199254740993 { a { b: $i } }\n",
         "@for $i from 1e15 to 1e15 + 3 { a { b: $i } }\n", "@for $i from 9223372036854775805 through 9223372036854775807 { a { b: c } }\n",
         "$j: 9007199254740992; @while $j < 9007199254740996 { a { b: $j } $j: $j + 2; }\n", "@for $i from 1.0 through 3.0 { a { b: $i } }\n",
         "@for $i from 1px through 3px { a { b: $i } }\n", "@for $i from 3 through 1 { @for $k from $i to 3 { a { b: $k } } }\n"]

# name -> (alphabet, maxlen quick, maxlen thorough, prefix, suffix, syntaxes)
CONTEXTS = {
    "soup": (CORE, 4, 5, "", "", ["scss", "sass", "css"]),
    "value": (VALUE, 2, 3, "$x: 1;\na{b:", "}", ["scss", "css"]),
    "value-small": (VALUE_SMALL, 4, 5, "a{b:", "}", ["scss"]),
    "value-sass": (VALUE, 2, 3, "$x: 1\na\n  b: ", "\n", ["sass"]),
    "calc-args": (["1", "2px", "3em", ",", " ", "+", "(", ")"], 5, 6, "a{b:clamp(", ")}", ["scss"]),
    "calc-args2": (["1", "2px", "3em", "1%", ",", " ", "+", "-", "*", "/", "(", ")", "min(", "calc(", "$x"], 3, 4, "$x: 1;\na{b:max(", ")}", ["scss"]),
    "selector-interp": ([".", "#{$s}", " ", "a", ":", ">", ",", "&", "(", "["], 4, 5, "$s:\"日本\";\n", "{a:b}", ["scss"]),
    "media-interp": (["#{$s}", "(", ")", "and", " ", ":", "screen", ",", "not"], 4, 5, "$s:\"日本\";\n@media ", "{a{b:c}}", ["scss"]),
    "selector": (SELECTOR, 2, 3, "$s:\"日本語日本語\";\n", "{a:b}", ["scss"]),
    "selector-fn": (SELECTOR, 2, 3, "$s:\"日本語日本語\";\na{b:selector-parse(\"", "\")}", ["scss"]),
    "atrule": (ATRULE, 3, 3, "@", "", ["scss", "sass"]),
    "comment-soup": (COMMENT, 5, 6, "", "", ["sass", "scss"]),
    "loops": (LOOPS, 2, 2, "", "", ["scss"]),
}
BYTES = [
    {"src_hex": "ff"}, {"src_hex": "61c3"}, {"src_hex": "c328"}, {"src_hex": "efbbbf61"}, {"src_hex": "f0288cbc"},
    {"src_hex": "617b623a22c3227d"}, {"src_hex": "00"},
]
IMPORT_BYTES = [("@import \"bad\";", {"_bad.scss": {"hex": "ff"}}), ("@use \"bad\";", {"_bad.scss": {"hex": "c328"}}),
                ("@forward \"bad\";", {"_bad.scss": {"hex": "61c3"}}), ("@import \"bad\";", {"_bad.scss": {"ioerr": True}}),
                ("@use \"bad\";", {"_bad.scss": {"ioerr": True}}), ("@import \"bad\";", {"bad.sass": {"hex": "ff"}}),
                ("@import \"bad.css\"; @import \"sub/bad\";", {"sub/_bad.scss": {"hex": "80"}}),
                ("@use \"sass:meta\"; a { @include meta.load-css(\"bad\"); }", {"_bad.scss": {"hex": "ff"}})]
STYLES = [("expanded", False, True, True), ("compressed", False, True, True), ("expanded", True, False, False),
          ("compressed", True, False, True), ("expanded", False, False, False), ("compressed", False, True, False)]


def opts(i):
    st, quiet, uni, ch = STYLES[i % len(STYLES)]
    return {"style": st, "quiet": quiet, "unicode": uni, "charset": ch}


def apply_mut(s, d, atoms):
    op, i, a = d
    if not s:
        return None
    i = (i - 1) % len(s)
    at = atoms[a - 1]
    if op == "delete":
        return s[:i] + s[i + 1:]
    if op == "duplicate":
        return s[:i] + s[i] + s[i:]
    if op == "truncate":
        return s[:i]
    if op == "insert":
        return s[:i] + at + s[i:]
    if op == "replace":
        return s[:i] + at + s[i + 1:]
    if op == "swap":
        return s[:i] + s[i + 1:i + 2] + s[i] + s[i + 2:]
    return s


def run(ctx):
    rnd = random.Random(ctx.seed)
    ctx.rule = ("atom sequences enumerated by TLC (MC_Input) in 8 contexts (top-level soup over 13 characters, value, "
                "selector, selector-function, at-rule and comment soups, wrapped in a fixed prefix/suffix) x syntaxes, options "
                "rotated over 6 combinations; TLC-enumerated mutation descriptors applied to seeded corpus inputs; non-UTF-8 "
                "entry bytes and imported files; non-trivial = distinct input text that reached the compiler")
    thorough = ctx.tier == "thorough"
    r0 = C.tlc("MC_Grass", workers=1, timeout=300)
    C.tlc_must_pass(r0, "MC_Grass")
    ctx.add_tlc(r0)
    jobs = []
    batchof = []
    batches = []
    for name, (alpha, mq, mt, pre, suf, syntaxes) in CONTEXTS.items():
        ml = mt if thorough else mq
        r = C.tlc("MC_Input", cfg_text=CFG % (len(alpha), ml, "soup", 1), workers=6, timeout=3000, metaname="input-" + name)
        C.tlc_must_pass(r, "MC_Input/" + name)
        ctx.add_tlc(r)
        for syn in syntaxes:
            b = len(batches)
            batches.append("%s/%s" % (name, syn))
            for seq in r.cases:
                text = pre + "".join(alpha[a - 1] for a in seq) + suf
                j = {"src": text, "syntax": syn}
                j.update(opts(len(jobs)))
                jobs.append(j)
                batchof.append(b)
    # mutations of realistic inputs
    co = [c["input"] for c in C.corpus() if 5 < len(c["input"]) < 300]
    seeds = rnd.sample(co, 60 if not thorough else 200)
    maxpos = 24 if not thorough else 60
    r = C.tlc("MC_Input", cfg_text=CFG % (len(MUT_ATOMS), 1, "mutations", maxpos), workers=6, timeout=3000, metaname="input-mut")
    C.tlc_must_pass(r, "MC_Input/mutations")
    ctx.add_tlc(r)
    descs = r.cases
    b = len(batches)
    batches.append("mutations")
    for s in seeds:
        ds = descs if thorough else rnd.sample(descs, min(len(descs), 700))
        for d in ds:
            if d[1] > len(s) + 1:
                continue
            t = apply_mut(s, d, MUT_ATOMS)
            if t is None:
                continue
            j = {"src": t}
            j.update(opts(len(jobs)))
            if len(jobs) % 7 == 0:
                j["syntax"] = "sass"
            jobs.append(j)
            batchof.append(b)
    # bytes that are not UTF-8, at the entry point and behind @import/@use/@forward
    b = len(batches)
    batches.append("bytes")
    for bj in BYTES:
        for syn in ("scss", "sass", "css"):
            jobs.append(dict(bj, syntax=syn))
            batchof.append(b)
    # inputs that once crashed the compiler and lie beyond the quick tier's length bounds
    for src in ("\\é:{a:b}", "\\é.{a:b}", "\\é|{a:b}", "a\\日:{b:c}", "\\é:hover,\\é{a:b}"):
        for o in range(2):
            j = {"src": src}
            j.update(opts(o))
            jobs.append(j)
            batchof.append(b)
    for src, files in IMPORT_BYTES:
        for o in range(2):
            j = {"src": src, "files": files}
            j.update(opts(o))
            jobs.append(j)
            batchof.append(b)
    for i, j in enumerate(jobs):
        j["id"] = i
    # executed in slices; only what the judgement needs is kept of each result (the thorough tier runs millions of compilations)
    def slim(x):
        y = {"outcome": x.get("outcome")}
        if x.get("err"):
            y["err"] = {"kind": (x.get("err") or {}).get("kind")}
        if "rendered" in x:
            y["rendered"] = True
        for k in ("panic", "kind_panic", "render_panic", "retried"):
            if x.get(k):
                y[k] = x[k]
        return y
    res = []
    for start in range(0, len(jobs), 150000):
        res.extend(slim(x) for x in C.run_cases(jobs[start:start + 150000], PID, watchdog=4.0))
    stats = [{"id": k, "ctx": batches[k], "n": 0, "css": 0, "parse": 0, "io": 0, "utf8": 0, "other": []} for k in range(len(batches))]
    seen = set()
    for j, x, k in zip(jobs, res, batchof):
        key = (j.get("src") or j.get("src_hex"), j.get("syntax"))
        ctx.evaluations += 1
        if key not in seen:
            seen.add(key)
        s = stats[k]
        s["n"] += 1
        oc = x.get("outcome")
        if oc == "css":
            s["css"] += 1
        elif oc == "error" and (x.get("err") or {}).get("kind") in ("parse", "io", "utf8") and "rendered" in x:
            s[x["err"]["kind"]] += 1
        else:
            if len(s["other"]) < 200:
                s["other"].append(j["id"])
            s.setdefault("nother", 0)
            s["nother"] = s.get("nother", 0) + 1
    ctx.nontrivial = set(str(hash(k)) for k in seen)
    for s in stats:
        s.setdefault("nother", 0)
    tpath = os.path.join(C.WORK, "trace-C01-%d.ndjson" % os.getpid())
    with open(tpath, "w") as f:
        for s in stats:
            f.write(json.dumps(s) + "\n")
    tr = C.tlc("Trace_Total", workers=1, dfs=True, env={"TRACE": tpath}, timeout=1200)
    ctx.add_tlc(tr)
    if tr.rc != 0 and not any(k == "REJECT" for k, _ in tr.prints):
        C.log(tr.out[-3000:])
        raise C.ToolError("Trace_Total failed")
    ctx.validated += len(jobs)
    for kind, v in tr.prints:
        if kind == "REJECT":
            for i in v["other"]:
                j, x = jobs[i], res[i]
                ctx.violation("compilation did not end in CSS or a structured error: %s %s" % (x.get("outcome"), (x.get("panic") or x.get("kind_panic") or x.get("render_panic") or "")[:120]),
                              {"job": j, "context": batches[batchof[i]], "outcome": x.get("outcome"),
                               "panic": x.get("panic") or x.get("kind_panic") or x.get("render_panic"),
                               "src": j.get("src"), "spec": "Grass (no action ends a compilation in a panic, crash or hang)"})
    ctx.extra["batches"] = [{k: s[k] for k in ("ctx", "n", "css", "parse", "io", "utf8", "nother")} for s in stats]
    for j in jobs[:2] + jobs[len(jobs) // 2:len(jobs) // 2 + 2]:
        ctx.sample({k: j.get(k) for k in ("src", "src_hex", "syntax", "style", "files")})
    os.remove(tpath)
    ctx.assumptions += ["a hang is a compilation of a tiny input that exceeds the 4 s watchdog and, re-run alone, 24 s; @while is not generated (unbounded loops are outside the property)",
                        "bounded exhaustive exploration of short inputs and single mutations of corpus inputs; no proof of parser termination"]
