# Input pools shared by the relational checks (C05, C06, C18): TLC-generated programs and the golden corpus.
import random

from . import common as C
from . import p03

NEST_CFG = """SPECIFICATION Spec
CONSTANTS
  MaxLen = %d
  MaxDepth = %d
  Menu = "%s"
  Spine = FALSE
CONSTRAINT Closable
INVARIANTS FlatKeepsAll Emit
CHECK_DEADLOCK FALSE
"""


def eval_programs(ctx, profiles, sim=None):
    """programs of MC_Eval (both renderings) whose expectation is 'ok'"""
    out = []
    for prof, ml, md in profiles:
        r = C.tlc("MC_Eval", cfg_text=p03.CFG % (ml, md, prof, "TRUE", "FALSE"), workers=8, timeout=3000, metaname="src-" + prof)
        C.tlc_must_pass(r, "MC_Eval/" + prof)
        ctx.add_tlc(r)
        out.extend(c for c in r.cases if c["k"] == "ok")
    if sim:
        r = C.tlc("MC_Eval", cfg_text=p03.CFG % (16, 4, "full", "TRUE", "FALSE"), workers=8, simulate=sim, depth=40, seed=ctx.seed,
                  timeout=3000, metaname="src-sim")
        C.tlc_must_pass(r, "MC_Eval/sim")
        ctx.add_tlc(r)
        out.extend(c for c in r.cases if c["k"] == "ok")
    seen = set()
    uniq = []
    for c in out:
        k = "\n".join(c["scss"])
        if k not in seen:
            seen.add(k)
            uniq.append(c)
    return uniq


def nesting_programs(ctx, menus):
    out = []
    for menu, ml, md in menus:
        r = C.tlc("MC_Nesting", cfg_text=NEST_CFG % (ml, md, menu), workers=8, timeout=3000, metaname="src-nest-" + menu)
        C.tlc_must_pass(r, "MC_Nesting/" + menu)
        ctx.add_tlc(r)
        out.extend(c for c in r.cases if c["flat"])
    return out


def corpus_ok(ctx, n=None):
    """corpus entries that are expected to compile (test! entries without special options)"""
    co = [c for c in C.corpus() if c["kind"] == "test" and not c["opts"] and not c["ignored"]
          and "random(" not in c["input"] and "unique-id" not in c["input"]]
    if n and n < len(co):
        co = random.Random(ctx.seed).sample(co, n)
    return co
