# An independent reader for the CSS that grass emits (never grass itself): block
# structure, declarations, at-rules, comments, strings.  Used to compare outputs
# structurally instead of textually.
import re


class CssSyntaxError(Exception):
    pass


def _skip_string(s, i):
    q = s[i]
    i += 1
    n = len(s)
    while i < n:
        c = s[i]
        if c == "\\":
            i += 2
            continue
        if c == q:
            return i + 1
        if c == "\n":
            raise CssSyntaxError("newline in string at %d" % i)
        i += 1
    raise CssSyntaxError("unterminated string")


def _skip_comment(s, i):
    j = s.find("*/", i + 2)
    if j < 0:
        raise CssSyntaxError("unterminated comment")
    return j + 2


def parse(css):
    """Returns a list of nodes.  node = dict(type='rule'|'at'|'decl'|'comment', ...)."""
    if css.startswith("﻿"):
        css = css[1:]
    nodes, i = _block(css, 0, top=True)
    if i != len(css):
        raise CssSyntaxError("unbalanced '}' at %d" % i)
    return nodes


def _block(s, i, top):
    nodes = []
    n = len(s)
    while True:
        while i < n and s[i] in " \t\r\n\f;":
            i += 1
        if i >= n:
            if not top:
                raise CssSyntaxError("missing '}'")
            return nodes, i
        if s[i] == "}":
            if top:
                raise CssSyntaxError("unbalanced '}' at %d" % i)
            return nodes, i + 1
        if s.startswith("/*", i):
            j = _skip_comment(s, i)
            nodes.append({"type": "comment", "text": s[i:j]})
            i = j
            continue
        # a statement: scan to ; { or } at depth 0 of () and []
        start = i
        depth = 0
        custom = s.startswith("--", i)
        while i < n:
            c = s[i]
            if c in "\"'":
                i = _skip_string(s, i)
                continue
            if s.startswith("/*", i):
                i = _skip_comment(s, i)
                continue
            if c == "\\":
                i += 2
                continue
            if c in "([":
                depth += 1
            elif c in ")]":
                depth -= 1
                if depth < 0:
                    raise CssSyntaxError("unbalanced ')' at %d" % i)
            elif depth == 0 and c in ";}":
                break
            elif depth == 0 and c == "{":
                if custom:
                    # braces inside a custom property value
                    bd = 0
                    while i < n:
                        if s[i] in "\"'":
                            i = _skip_string(s, i)
                            continue
                        if s[i] == "{":
                            bd += 1
                        elif s[i] == "}":
                            bd -= 1
                            if bd == 0:
                                i += 1
                                break
                        i += 1
                    continue
                break
            i += 1
        if depth != 0:
            raise CssSyntaxError("unbalanced '(' from %d" % start)
        text = s[start:i].strip()
        if i < n and s[i] == "{":
            children, i = _block(s, i + 1, top=False)
            if text.startswith("@"):
                m = re.match(r"@([-\w]+)\s*(.*)$", text, re.S)
                nodes.append({"type": "at", "name": m.group(1).lower() if m else "", "prelude": _ws(m.group(2)) if m else text,
                              "children": children})
            else:
                nodes.append({"type": "rule", "prelude": _ws(text), "children": children})
        else:
            if text.startswith("@"):
                m = re.match(r"@([-\w]+)\s*(.*)$", text, re.S)
                nodes.append({"type": "at", "name": m.group(1).lower() if m else "", "prelude": _ws(m.group(2)) if m else text,
                              "children": None})
            elif text:
                k = _colon(text)
                if k < 0:
                    raise CssSyntaxError("declaration without ':' %r" % text[:40])
                nodes.append({"type": "decl", "name": text[:k].strip(), "value": _ws(text[k + 1:])})
            if i < n and s[i] == ";":
                i += 1


def _colon(t):
    i = 0
    while i < len(t):
        if t[i] in "\"'":
            i = _skip_string(t, i)
            continue
        if t[i] == ":":
            return i
        i += 1
    return -1


def _ws(t):
    """collapse whitespace outside strings"""
    out = []
    i = 0
    n = len(t)
    while i < n:
        c = t[i]
        if c in "\"'":
            j = _skip_string(t, i)
            out.append(t[i:j])
            i = j
            continue
        if c in " \t\r\n\f":
            while i < n and t[i] in " \t\r\n\f":
                i += 1
            out.append(" ")
            continue
        out.append(c)
        i += 1
    return "".join(out).strip()


def flatten(nodes, ctx=()):
    """[(context tuple of '@name prelude', selector, [(prop, value)...])] in output order;
    declarations directly inside an at-rule (e.g. @font-face) get selector ''."""
    out = []
    direct = []
    for nd in nodes:
        if nd["type"] == "decl":
            direct.append((nd["name"], nd["value"]))
        elif nd["type"] == "rule":
            decls = [(c["name"], c["value"]) for c in nd["children"] if c["type"] == "decl"]
            out.append((ctx, nd["prelude"], decls))
            inner = [c for c in nd["children"] if c["type"] in ("rule", "at")]
            if inner:
                out.extend(flatten(inner, ctx + (nd["prelude"],)))
        elif nd["type"] == "at":
            if nd["children"] is None:
                out.append((ctx, "@" + nd["name"] + " " + nd["prelude"], None))
            else:
                out.extend(flatten(nd["children"], ctx + (("@" + nd["name"] + " " + nd["prelude"]).strip(),)))
    if direct:
        out.insert(0, (ctx, "", direct))
    return out
