# An independent CSS tokenizer for grass's output (token classes of CssTokens.tla).
import json
import os
import re

COLORS = json.load(open(os.path.join(os.path.dirname(os.path.abspath(__file__)), "css_colors.json")))
HEX2NAME = {}

IDENT_START = re.compile(r"-?(?:[A-Za-z_\u0080-\U0010ffff]|\\.)|--")
IDENT_CHARS = re.compile(r"(?:[-A-Za-z0-9_\u0080-\U0010ffff]|\\[0-9a-fA-F]{1,6} ?|\\.)*")
NUM = re.compile(r"[+-]?(?:\d+\.?\d*|\.\d+)(?:[eE][+-]?\d+)?")


def tokenize(css):
    """list of [cls, text]; classes: ws comment str badstr ident func at hash num dim pct { } ( ) [ ] semi colon comma
    delim var placeholder amp interp bom"""
    toks = []
    i = 0
    n = len(css)
    if css.startswith("﻿"):
        toks.append(["bom", "﻿"])
        i = 1
    while i < n:
        c = css[i]
        if c in " \t\r\n\f":
            j = i
            while j < n and css[j] in " \t\r\n\f":
                j += 1
            toks.append(["ws", " "])
            i = j
        elif css.startswith("/*", i):
            j = css.find("*/", i + 2)
            if j < 0:
                toks.append(["badcomment", css[i:]])
                break
            toks.append(["comment", css[i:j + 2]])
            i = j + 2
        elif c in "\"'":
            j = i + 1
            ok = False
            while j < n:
                if css[j] == "\\":
                    j += 2
                    continue
                if css[j] == c:
                    ok = True
                    break
                if css[j] == "\n":
                    break
                j += 1
            if ok:
                toks.append(["str", css[i:j + 1]])
                i = j + 1
            else:
                toks.append(["badstr", css[i:j]])
                i = j
        elif css.startswith("#{", i):
            toks.append(["interp", "#{"])
            i += 2
        elif c == "#":
            m = IDENT_CHARS.match(css, i + 1)
            if m and m.end() > i + 1:
                toks.append(["hash", css[i:m.end()]])
                i = m.end()
            else:
                toks.append(["delim", "#"])
                i += 1
        elif c == "$" and i + 1 < n and IDENT_START.match(css, i + 1):
            m = IDENT_CHARS.match(css, i + 1)
            toks.append(["var", css[i:m.end()]])
            i = m.end()
        elif c == "%" and i + 1 < n and IDENT_START.match(css, i + 1) and (not toks or toks[-1][0] not in ("num",)):
            m = IDENT_CHARS.match(css, i + 1)
            toks.append(["placeholder", css[i:m.end()]])
            i = m.end()
        elif c == "&":
            toks.append(["amp", "&"])
            i += 1
        elif c == "@":
            m = IDENT_CHARS.match(css, i + 1)
            if m and m.end() > i + 1:
                toks.append(["at", css[i:m.end()]])
                i = m.end()
            else:
                toks.append(["delim", "@"])
                i += 1
        elif NUM.match(css, i) and (c.isdigit() or c == "." or (c in "+-" and i + 1 < n and (css[i + 1].isdigit() or css[i + 1] == "."))):
            m = NUM.match(css, i)
            j = m.end()
            if j < n and css[j] == "%":
                toks.append(["pct", css[i:j + 1]])
                i = j + 1
            else:
                m2 = IDENT_START.match(css, j)
                if m2 and not css.startswith("--", j):
                    m3 = IDENT_CHARS.match(css, j)
                    toks.append(["dim", css[i:m3.end()]])
                    i = m3.end()
                else:
                    toks.append(["num", css[i:j]])
                    i = j
        elif IDENT_START.match(css, i):
            m = IDENT_CHARS.match(css, i)
            j = m.end()
            if j < n and css[j] == "(":
                name = css[i:j]
                if name.lower() == "url":
                    k = css.find(")", j)
                    body = css[j + 1:k] if k > 0 else ""
                    if k > 0 and not re.match(r"\s*[\"']", body):
                        toks.append(["url", css[i:k + 1]])
                        i = k + 1
                        continue
                toks.append(["func", name])
                toks.append(["(", "("])
                i = j + 1
            else:
                toks.append(["ident", css[i:j]])
                i = j
        elif c in "{}()[]":
            toks.append([c, c])
            i += 1
        elif c == ";":
            toks.append(["semi", ";"])
            i += 1
        elif c == ":":
            toks.append(["colon", ":"])
            i += 1
        elif c == ",":
            toks.append(["comma", ","])
            i += 1
        else:
            toks.append(["delim", c])
            i += 1
    return toks


def _numcanon(t):
    m = NUM.match(t)
    num, unit = t[:m.end()], t[m.end():]
    try:
        f = float(num)
    except ValueError:
        return t
    s = ("%.10f" % f).rstrip("0").rstrip(".")
    if s in ("-0", ""):
        s = "0"
    if s.startswith("0.") and len(s) > 2:
        s = s[1:]
    elif s.startswith("-0.") and len(s) > 3:
        s = "-" + s[2:]
    return s + unit.lower()


def canon_color(cls, text):
    """name / #rgb / #rrggbb -> #rrggbb (only in value position; the caller decides)"""
    if cls == "ident" and text.lower() in COLORS:
        r, g, b = COLORS[text.lower()]
        return "#%02x%02x%02x" % (r, g, b)
    if cls == "hash":
        h = text[1:].lower()
        if re.fullmatch(r"[0-9a-f]{3}", h):
            return "#" + "".join(ch * 2 for ch in h)
        if re.fullmatch(r"[0-9a-f]{6}", h):
            return "#" + h
    return None


def norm_tokens(toks):
    """the normal forms Canon works on: numbers and colours spelled canonically, token text otherwise kept"""
    out = []
    depth_value = False
    for cls, text in toks:
        if cls in ("num", "dim", "pct"):
            out.append([cls, _numcanon(text)])
        else:
            out.append([cls, text])
    return out


def canon_stream(css):
    """tokens with numbers spelled canonically everywhere and colours canonically in declaration values"""
    toks = tokenize(css)
    # mark value positions: from a colon to the next semi / } provided no { intervenes and we are inside a block
    n = len(toks)
    invalue = [False] * n
    depth = 0
    i = 0
    while i < n:
        c = toks[i][0]
        if c == "{":
            depth += 1
        elif c == "}":
            depth -= 1
        elif c == "colon" and depth > 0:
            j = i + 1
            while j < n and toks[j][0] not in ("semi", "}", "{"):
                j += 1
            if j >= n or toks[j][0] != "{":
                for k in range(i + 1, min(j, n)):
                    invalue[k] = True
                i = j
                continue
        i += 1
    out = []
    for k, (cls, text) in enumerate(toks):
        if cls in ("num", "dim", "pct"):
            out.append([cls, _numcanon(text)])
        elif invalue[k] and canon_color(cls, text):
            out.append(["color", canon_color(cls, text)])
        else:
            out.append([cls, text])
    return out


def _hsl_to_rgb(h, s, l):
    from fractions import Fraction as Fr
    h = Fr(h) % 360
    s = min(max(Fr(s) / 100, 0), 1)
    l = min(max(Fr(l) / 100, 0), 1)
    m2 = l * (s + 1) if l <= Fr(1, 2) else l + s - l * s
    m1 = l * 2 - m2

    def hue(t):
        t = t % 1
        if t < Fr(1, 6):
            return m1 + (m2 - m1) * t * 6
        if t < Fr(1, 2):
            return m2
        if t < Fr(2, 3):
            return m1 + (m2 - m1) * (Fr(2, 3) - t) * 6
        return m1
    hh = h / 360

    def rnd(x):
        import math
        return int(math.floor(x * 255 + Fr(1, 2)))
    return rnd(hue(hh + Fr(1, 3))), rnd(hue(hh)), rnd(hue(hh - Fr(1, 3)))


def _fold_color_functions(toks):
    """rgb()/rgba()/hsl()/hsla() calls over plain numbers and #rgba/#rrggbbaa -> one 'color' token"""
    from fractions import Fraction as Fr
    out = []
    i = 0
    n = len(toks)
    while i < n:
        cls, text = toks[i]
        if cls == "func" and text.lower() in ("rgb", "rgba", "hsl", "hsla") and i + 1 < n and toks[i + 1][0] == "(":
            j = i + 2
            args = []
            ok = True
            while j < n and toks[j][0] != ")":
                if toks[j][0] in ("num", "dim", "pct"):
                    args.append(toks[j][1])
                elif toks[j][0] in ("ws", "comma") or (toks[j][0] == "delim" and toks[j][1] == "/"):
                    pass
                else:
                    ok = False
                j += 1
            if ok and j < n and len(args) in (3, 4):
                try:
                    def val(t):
                        m = NUM.match(t)
                        return Fr(m.group(0)), t[m.end():]
                    a = Fr(1)
                    if len(args) == 4:
                        av, au = val(args[3])
                        a = av / 100 if au == "%" else av
                        a = min(max(a, 0), 1)
                    if text.lower().startswith("rgb"):
                        ch = []
                        for t in args[:3]:
                            v, u = val(t)
                            if u == "%":
                                v = v * 255 / 100
                            import math
                            ch.append(int(min(max(math.floor(v + Fr(1, 2)), 0), 255)))
                        r, g, b = ch
                    else:
                        hv, hu = val(args[0])
                        r, g, b = _hsl_to_rgb(hv, val(args[1])[0], val(args[2])[0])
                    if a == 1:
                        out.append(["color", "#%02x%02x%02x" % (r, g, b)])
                    else:
                        out.append(["color", "rgba(%d,%d,%d,%s)" % (r, g, b, _numcanon("%.10f" % float(a)))])
                    i = j + 1
                    continue
                except Exception:
                    pass
        if cls == "ident" and text.lower() == "transparent" and (not out or out[-1][0] in ("ws", "colon", "comma")):
            out.append(["color", "rgba(0,0,0,0)"])          # the keyword and its rgba() spelling are one colour
            i += 1
            continue
        if cls == "hash" and re.fullmatch(r"#[0-9a-fA-F]{8}|#[0-9a-fA-F]{4}", text):
            h = text[1:].lower()
            if len(h) == 4:
                h = "".join(ch * 2 for ch in h)
            r, g, b, al = (int(h[k:k + 2], 16) for k in (0, 2, 4, 6))
            if al == 255:
                out.append(["color", "#%02x%02x%02x" % (r, g, b)])
            else:
                out.append(["color", "rgba(%d,%d,%d,%s)" % (r, g, b, _numcanon("%.10f" % (al / 255.0)))])
            i += 1
            continue
        out.append([cls, text])
        i += 1
    return out


_canon_stream0 = canon_stream


def canon_stream(css):  # noqa: F811
    return _fold_color_functions(_canon_stream0(css))
