# C02: a result is a pure function of source, options and visible files.
import hashlib
import json
import re
import os
import random

from . import common as C

PID = "C02"

CFG = """SPECIFICATION SpecAbstract
CONSTANTS
  Jobs = {%s}
  Threads = {%s}
  MaxHist = %d
  NoJob = 0
INVARIANTS HistoryConsistent Emit
CHECK_DEADLOCK FALSE
"""

LIB = {"_lib.scss": "@forward \"inner\";\n$l1: 1;\n$l2: 2;\n@function lf() { @return 1; }\n",
       "_inner.scss": "$zz: 1;\n$aa: 2;\n$mm: 3;\n@function zf() { @return 1; }\n@function af() { @return 1; }\n"}

# jobs whose output would expose interning order, hash order or leaked per-thread state
SPECIAL = [
    {"src": "@function f($args...) { @return inspect(keywords($args)); }\na { b: f($zeta: 1, $alpha: 2, $mid: 3); }\n"},
    {"src": "@function f($args...) { @return inspect(keywords($args)); }\na { b: f($alpha: 1, $zeta: 2); c: f($q: 1, $b: 2, $x: 3, $a: 4); }\n"},
    {"src": "@mixin m($r...) { x: y; }\na { @include m($zeta: 1, $alpha: 2); }\n"},
    {"src": "@function g($a, $r...) { @return 1; }\na { b: g(1, $zz: 1, $bb: 2, $mm: 3); }\n"},
    {"src": "@use \"sass:meta\";\n@use \"lib\";\na { v: inspect(meta.module-variables(\"lib\")); f: inspect(meta.module-functions(\"lib\")); }\n", "files": LIB},
    {"src": "@use \"sass:map\";\n$m: (zeta: 1, alpha: 2, mid: 3);\na { k: map.keys($m); v: map.values(map.merge($m, (beta: 4))); }\n"},
    {"src": "a.x, b.y { c: d; }\n.z { @extend .x; @extend .y; }\n.w { @extend .z; }\n"},
    {"src": "%p { a: b; }\n.q, .r > .s { @extend %p; }\n.t { @extend .q; }\n@media screen { .u { @extend .s !optional; } }\n"},
    {"src": "$w: 3px;\n.x-#{$w} { y: \"#{1 2 3}\" + $w; z: if($condition: true, $if-true: x, $if-false: y); }\n"},
    {"src": "$u: 0; a { b: if($condition: true, $if-true: x, $if-false: y); c: $u; } $z1: 0; $z2: 0;\n"},
    {"src": "a { b: selector-unify(\".a.b\", \".c\"); c: selector-extend(\".a .b\", \".b\", \".c .d\"); d: is-superselector(\".a\", \".a.b\"); }\n"},
    {"src": "@function h($zeta: 1, $alpha: 2) { @return $zeta + $alpha; }\na { b: h($alpha: 5); c: h($omega: 1); }\n"},
    {"src": "a { b: unique-id() == unique-id(); c: str-length(unique-id()) > 0; }\n"},
    {"src": "@each $k, $v in (zeta: 1, alpha: 2) { .#{$k} { v: $v; } }\n@debug map-get((zeta: 1), zeta);\n"},
    {"src": "a { b: call(get-function(\"lighten\"), red, 10%); c: inspect(get-function(\"darken\")); }\n"},
    {"src": "$map: (a: (b: (c: 1))); a { b: inspect(map-get($map, a)); c: inspect($map); }\n"},
]
# prior jobs: perturb the interner (name order), leave work half-done on error paths
PRIORS = [
    {"src": "$alpha: 1; $zeta: 2; $mid: 3; $aa: 1; $zz: 2;\n"},
    {"src": "$zeta: 1; $mid: 2; $alpha: 3; $zz: 1; $mm: 1; $aa: 2; $bb: 1; $x: 1; $q: 1; $b: 1; $a: 1;\n"},
    {"src": "a { b: \"#{1 2 (k: v)}\"; }\n"},
    {"src": "a { b: 1px + 1s; }\n"},
    {"src": "a {\n"},
    {"src": "@function f($omega, $if-false, $if-true, $condition) { @return 1; }\n$p:1; $q:2; a{b: if($p==1,$q,0)}\n"},
    {"src": ".a { @extend .missing; } .b { c: d; }\n"},
    {"src": "@use \"sass:math\"; a { b: math.div(1, 3) + math.$pi; c: selector-nest(\".a\", \"&.b\"); }\n"},
    {"src": "@mixin m($r...) { @content; } a { @include m($k: 1) { b: c; } }\n"},
    {"src": "a { b: map-get((k: 1), (k: 1)...); c: rgba(1, 2, 3, $bogus: 1); }\n"},
    {"src": "@import \"nothing-here\";\n"},
    {"src": "a { b: inspect((zeta: 1, alpha: (mid: 2))); c: 10px * 10px; }\n"},
]


def fp(r):
    """what a caller can observe: CSS or error text, and the logger deliveries"""
    o = {"outcome": r.get("outcome"), "css": r.get("css"), "rendered": r.get("rendered"), "panic": r.get("panic"),
         "log": r.get("log")}
    return hashlib.sha1(json.dumps(o, sort_keys=True).encode()).hexdigest()[:16]


def fpn(r):
    """fingerprint up to the ORDER of words: what deviation D_identifier_order (F9) leaves invariant"""
    import re
    def words(t):
        return sorted(re.findall(r"[\w$-]+", t or ""))
    o = {"outcome": r.get("outcome"), "css": words(r.get("css")), "rendered": words((r.get("rendered") or "").split("\n")[0]),
         "panic": r.get("panic"), "log": [[x.get("kind"), words(x.get("msg")), x.get("line")] for x in (r.get("log") or [])]}
    return hashlib.sha1(json.dumps(o, sort_keys=True).encode()).hexdigest()[:16]


def run(ctx):
    rnd = random.Random(ctx.seed)
    ctx.rule = ("jobs = targeted programs (keyword-argument order, module introspection, maps, extend, error paths) + a seeded "
                "corpus sample; each job is first run in fresh processes (canon), then after every history of <= MaxHist "
                "prior jobs enumerated by TLC on a fresh thread, and in TLC-enumerated multi-thread schedules; every "
                "start/finish is an event validated by Trace_History; non-trivial = distinct (history/schedule, job)")
    co = [c for c in C.corpus() if "random" not in c["input"] and "unique-id" not in c["input"]]
    nsample = 60 if ctx.tier == "quick" else 600
    sample = rnd.sample(co, min(nsample, len(co)))
    pool = []            # job pool; index+1 = job id
    for j in PRIORS:
        pool.append(dict(j))
    npri = len(pool)
    for j in SPECIAL:
        pool.append(dict(j))
    for c in sample:
        pool.append({"src": c["input"]})
    # unique-id() may differ between runs by design: keep only jobs that compare ids, never print them
    K = 2 if ctx.tier == "quick" else 4
    events = []
    # ---- canon: fresh processes
    base_jobs = []
    for k in range(K):
        for i, j in enumerate(pool):
            base_jobs.append(dict(j, id=i + 1))
    bres = C.run_fresh_processes(base_jobs, PID)
    for j, r in zip(base_jobs, bres):
        events.append({"e": "baseline", "id": "fresh-%d" % j["id"], "j": j["id"], "r": fp(r), "rn": fpn(r), "t": 0})
    # ---- single-thread histories enumerated by TLC over the prior alphabet
    maxh = 2 if ctx.tier == "quick" else 3
    alpha = list(range(1, npri + 1)) if ctx.tier == "thorough" else list(range(1, npri + 1))
    r = C.tlc("MC_History", cfg_text=CFG % (", ".join(map(str, alpha)), '"t1"', maxh), workers=4, timeout=1200)
    C.tlc_must_pass(r, "MC_History")
    ctx.add_tlc(r)
    hists = [c["sched"]["t1"] for c in r.cases]
    observed = list(range(npri + 1, len(pool) + 1))
    cases = []
    if ctx.tier == "quick":
        # every history x every special job, and a rotating slice of the corpus sample
        for hi, h in enumerate(hists):
            for oj in observed[:len(SPECIAL)]:
                cases.append((h, oj))
            for k in range(4):
                cases.append((h, observed[len(SPECIAL) + (hi * 4 + k) % (len(observed) - len(SPECIAL))]))
    else:
        for h in hists:
            for oj in observed:
                cases.append((h, oj))
        ctx.extra["history_cases_enumerated"] = len(cases)
        if len(cases) > 120000:       # every history x every observed job is > 1e6 runs of up to 4 compilations: a seeded sample is executed
            cases = rnd.sample(cases, 120000)
    hjobs = [{"id": i, "op": "history", "fresh_thread": True, "prior": [pool[p - 1] for p in h], "job": pool[oj - 1]}
             for i, (h, oj) in enumerate(cases)]
    hres = C.run_cases(hjobs, PID + "-hist")
    for i, ((h, oj), x) in enumerate(zip(cases, hres)):
        ctx.count(["hist", h, oj])
        events.append({"e": "reset", "id": i, "j": 0, "r": "", "rn": "", "t": 0})
        pri = x.get("priors") or []
        for p, pr in zip(h, pri):
            events.append({"e": "start", "id": "hist-%d" % i, "t": 1, "j": p, "r": "", "rn": ""})
            events.append({"e": "finish", "id": "hist-%d" % i, "t": 1, "j": p,
                           "r": fp(pr), "rn": fpn(pr)})
        events.append({"e": "start", "id": "hist-%d" % i, "t": 1, "j": oj, "r": "", "rn": ""})
        events.append({"e": "finish", "id": "hist-%d" % i, "t": 1, "j": oj, "r": fp(x), "rn": fpn(x)})
    # ---- multi-thread schedules enumerated by TLC (4 job slots, 2..3 threads), slots bound to pool jobs
    nthr = 2 if ctx.tier == "quick" else 3
    r2 = C.tlc("MC_History", cfg_text=CFG % ("1, 2, 3", ", ".join('"t%d"' % (k + 1) for k in range(nthr)), 2),
               workers=4, timeout=1200)
    C.tlc_must_pass(r2, "MC_History threads")
    ctx.add_tlc(r2)
    scheds = [c["sched"] for c in r2.cases if sum(1 for v in c["sched"].values() if v) >= 2]
    tcases = []
    reps = 3 if ctx.tier == "quick" else 20
    for s in scheds:
        for _ in range(reps if ctx.tier == "thorough" else 1):
            bind = {1: rnd.randrange(1, npri + 1), 2: npri + 1 + rnd.randrange(len(SPECIAL)), 3: rnd.randrange(npri + 1, len(pool) + 1)}
            tcases.append({t: [bind[j] for j in seq] for t, seq in s.items()})
    tjobs = [{"id": i, "op": "threads", "jobs": [[pool[j - 1] for j in tc[t]] for t in sorted(tc)]} for i, tc in enumerate(tcases)]
    tres = C.run_cases(tjobs, PID + "-thr")
    for i, (tc, x) in enumerate(zip(tcases, tres)):
        ctx.count(["threads", tc])
        events.append({"e": "reset", "id": i, "j": 0, "r": "", "rn": "", "t": 0})
        results = x.get("results") or []
        for ti, t in enumerate(sorted(tc)):
            rs = results[ti] if ti < len(results) and isinstance(results[ti], list) else []
            for j, pr in zip(tc[t], rs):
                events.append({"e": "start", "id": "thr-%d" % i, "t": ti + 1, "j": j, "r": "", "rn": ""})
                events.append({"e": "finish", "id": "thr-%d" % i, "t": ti + 1, "j": j,
                               "r": fp(pr), "rn": fpn(pr)})
            if len(rs) != len(tc[t]):
                ctx.violation("a compiling thread died", {"threads": tc, "observed": x})
    # ---- per-process hash state: sheets whose result went through address- or hash-keyed containers, each in many fresh processes
    # (std's hasher is keyed per process: a result that depends on it differs in about one process in a hundred)
    HASHY = ["b:not(.x) { r: 1; }\nb:not(.x) { r: 2; }\nb { @extend .x; r: 3; }\n",
             ".x { r: 1; }\n.x { r: 2; }\n.x { r: 3; }\n.y { @extend .x; r: 4; }\n",
             "a { b: c; }\na { d: e; }\n%p { f: g; }\na { @extend %p; }\n@media screen { a { h: i; } a { j: k; } }\n"]
    reps_h = 260 if ctx.tier == "quick" else 1500
    for src_h in HASHY:
        pool.append({"src": src_h})
        jh = len(pool)
        hres = C.run_fresh_processes([{"id": k, "src": src_h} for k in range(reps_h)], PID + "-hash")
        for k, x in enumerate(hres):
            events.append({"e": "baseline", "id": "fresh-hash-%d-%d" % (jh, k), "j": jh, "r": fp(x), "rn": fpn(x), "t": 0})
        ctx.count(["hash", src_h])
    # ---- unique-id(): distinct valid identifiers within one compilation (loops, functions, mixins, an imported file, both spellings)
    UID = [("@for $i from 1 through 400 { a { u: unique-id(); } }\n", {}),
           ("@use \"sass:string\";\n@function f() { @return string.unique-id(); }\n@mixin m { u: unique-id(); u: f(); }\n"
            "@for $i from 1 through 60 { a { @include m; @each $k in 1 2 3 { u: f(); } } }\n", {}),
           ("@import \"lib\";\n@for $i from 1 through 50 { a { u: unique-id(); u: g(); } }\n",
            {"_lib.scss": "@function g() { @return unique-id(); }\nb { u: unique-id(); u: g(); }\n"}),
           ("a { u: unique-id(); }\nb { u: unique-id(); }\n", {})]
    ujobs = [{"id": i, "src": s_, "files": fl} for i, (s_, fl) in enumerate(UID)]
    ujobs += [{"id": len(UID) + i, "op": "history", "fresh_thread": False, "prior": [{"src": UID[0][0]}], "job": {"src": UID[0][0]}} for i in range(2)]
    ures = C.run_cases(ujobs, PID + "-uid")
    uidmeta = {}
    for j, x in zip(ujobs, ures):
        vals = re.findall(r"u: ([^;]*);", x.get("css") or "")
        ok = [v for v in vals if re.fullmatch(r"-?[A-Za-z_][A-Za-z0-9_-]*", v)]
        ctx.count(["uid", j["id"]], nontrivial=bool(vals))
        eid = "uid-%d" % j["id"]
        uidmeta[eid] = (j, vals)
        if x.get("outcome") != "css" or not vals:
            ctx.violation("unique-id() job did not produce values: %s" % x.get("outcome"), {"job": j, "observed": x})
            continue
        events.append({"e": "uids", "id": eid, "j": 0, "t": 0, "r": "", "rn": "", "n": len(vals), "distinct": len(set(vals)), "valid": len(ok)})
    tpath = os.path.join(C.WORK, "trace-C02-%d.ndjson" % os.getpid())
    with open(tpath, "w") as f:
        for e in events:
            f.write(json.dumps(e) + "\n")
    tr = C.tlc("Trace_History", workers=1, dfs=True, env={"TRACE": tpath}, timeout=3000, heap="8g")
    ctx.add_tlc(tr)
    if tr.rc != 0 and not any(k == "REJECT" for k, _ in tr.prints):
        C.log(tr.out[-3000:])
        raise C.ToolError("Trace_History failed")
    ctx.validated += len(cases) + len(tcases) + len(pool)
    for kind, v in tr.prints:
        if kind == "REJECT":
            if str(v["id"]).startswith("uid-"):
                uj, vals = uidmeta[v["id"]]
                dup = sorted({u for u in vals if vals.count(u) > 1})[:5]
                ctx.violation("unique-id() values within one compilation are not distinct valid identifiers (%d values, %d distinct; e.g. %s)"
                              % (len(vals), len(set(vals)), dup or vals[:3]), {"job": uj, "values": vals[:20], "spec": "Trace_History.UidsOk"})
                continue
            j = v["job"]
            job = pool[j - 1]
            what = "result of a job differs from its fresh-process result"
            rp = {"job_id": j, "job": job, "event": v["id"], "history": [pool[p - 1]["src"] for p in v.get("history", [])],
                  "deviation": "D_identifier_order" if v.get("bydev") else "",
                  "spec": "History.Finish (r = canon[j])"}
            if str(v["id"]).startswith("fresh"):
                what = "two fresh processes disagree on one job (per-process state leaks into the result)"
            ctx.violation(what, rp)
    ctx.sample({"history": [pool[p - 1]["src"] for p in cases[5][0]], "job": pool[cases[5][1] - 1]["src"]})
    ctx.sample({"threads": tcases[0]})
    os.remove(tpath)
    ctx.assumptions += ["thread interleavings inside a compilation are those the OS scheduler produced (barrier-released threads), not enumerated",
                        "the history/thread jobs never print unique-id()/random() values (they may vary); unique-id() distinctness/validity is judged by separate jobs of up to 400 calls"]
