# C10: @extend makes extenders match wherever the target matched, nothing else.
import json
import os
import random

from . import common as C
from . import cssread
from . import selparse

PID = "C10"

CFG = """SPECIFICATION Spec
CONSTANTS
  MaxRules = %d
  MaxExtends = %d
  SelMenu = {%s}
  Targets = {%s}
  MediaMenu = {%s}
  InnerMenu = {%s}
  ChainMode = %s
INVARIANTS CreditMonotone Emit
CHECK_DEADLOCK FALSE
"""


def q(xs):
    return ", ".join('"%s"' % x for x in xs)


def classes_of(sl):
    out = set()
    for cx in sl:
        for comp in cx:
            c = comp["cmp"]
            out.update(c["cls"])
            for n in c["nots"] + c["iss"]:
                out |= classes_of(n)
    return out


def cyclic_complex(exts):
    """F16's family: the extensions depend on each other in a cycle (an extender mentions, directly or through others, the class it
    extends) and a complex extender takes part - the extender keeps being re-extended and the selector lists grow without bound"""
    n = len(exts)
    dep = {i: {j for j in range(n) if exts[j]["target"] in classes_of(exts[i]["extender"])} for i in range(n)}

    def reach(i):
        seen, todo = set(), [i]
        while todo:
            k = todo.pop()
            for j in dep[k]:
                if j not in seen:
                    seen.add(j)
                    todo.append(j)
        return seen
    for i in range(n):
        r = reach(i)
        if i in r and any(any(len(cx) > 1 for cx in exts[k]["extender"]) for k in r | {i}):
            return True
    return False


def run(ctx):
    rnd = random.Random(ctx.seed)
    ctx.rule = ("style sheets built rule by rule by MC_Extend: <= 3 rules with selectors from a menu (classes, types, compounds, descendant/"
                "child/sibling complexes, :not(), :is(), lists, placeholders), <= 2 @extend (targets .x .y %p, a missing target with and "
                "without !optional), so chains, cycles, self-extension and every rule order occur; each emitted rule selector is one "
                "event judged by TLC (Trace_Extend) against credited matching over all DOMs; non-trivial = distinct sheet")
    thorough = ctx.tier == "thorough"
    # focused plans are run whole; the broad plans are sampled in the quick tier
    focused = [(3, 1, [".y:not(.x)", "b:not(.x)", ":is(.x, b)", "b", ".y"], [".x"]),             # the same pseudo in several rules
               (3, 2, [".x", "a ~ .y", "a + .y", "b"], [".x"]),                                    # sibling extenders, no weaving
               (3, 2, [".x", "a.x", "%p", "b"], [".x", "%p"]),                                     # chains / order
               (2, 1, [".x", "a.x", "b", "%p"], [".x", "%p"], ["", "screen", "print"]),            # @extend and @media blocks
               (4, 3, [".x"], [".x"], [""], "chain"),                                              # a three-link chain in all 24 rule orders
               (2, 1, [".x", "a.x", "b", "%p"], [".x", "%p"], [""], "inner")]                      # declarations inside a nested @media of the rule
    broad = [(3, 2, [".x", "a.x", "a .x", "%p", ".y:not(.x)", "b"], [".x", ".y", "%p"]),
             (2, 2, [".x", ".y", "a.x", "b.y", "a .x", ".x > b", "a ~ .y", ".y + .x", "b %p", ".x .y", ".y:not(.x)", ":is(.x, b)",
                     "b:not(.x)", ".x, b.y", "a.x .y", "a:not(.x)", "%p"], [".x", ".y", "%p", ".zz"])]
    if thorough:
        focused.append((3, 1, [".x", "a.x", "b"], [".x"], ["", "screen", "print"]))
        broad.append((3, 3, [".x", ".y", "a.x", "a .x", ".x > b", "a ~ .y", "a + .y", ".y + .x", ".y:not(.x)", ":is(.x, b)", "%p", "b %p"], [".x", ".y", "%p"]))

    def gen(plans):
        out = []
        for plan in plans:
            mr, me, menu, targets = plan[:4]
            medias = plan[4] if len(plan) > 4 else [""]
            inner = "FALSE, TRUE" if (len(plan) > 5 and plan[5] == "inner") else "FALSE"
            chain = "TRUE" if (len(plan) > 5 and plan[5] == "chain") else "FALSE"
            r = C.tlc("MC_Extend", cfg_text=CFG % (mr, me, q(menu), q(targets), q(medias), inner, chain), workers=8, timeout=3000)
            C.tlc_must_pass(r, "MC_Extend")
            ctx.add_tlc(r)
            out.extend(r.cases)
        return out

    seen = set()

    def uniq(cs):
        out = []
        for c in cs:
            k = "\n".join(c["scss"])
            if k not in seen:
                seen.add(k)
                out.append(c)
        return out

    cases = uniq(gen(focused))
    ctx.extra["focused_sheets"] = len(cases)
    rest = uniq(gen(broad))
    if not thorough and len(rest) > 600:
        rest = rnd.sample(rest, 600)
    cases += rest
    # spelling variants: '.y' written as an id, an attribute or a pseudo-class (one opaque element feature in the model)
    modes = ["id", "attr", "pseudo"]
    nvar = 0
    for k, c in enumerate(list(cases)):
        if (k % 4 == 0 or thorough) and any(".y" in ln for ln in c["scss"]):
            md = modes[nvar % 3]
            nvar += 1
            cases.append(dict(c, scss=[selparse.respell(ln, md) for ln in c["scss"]]))
    ctx.extra["spelling_variants"] = nvar
    jobs = [{"id": i, "src": "\n".join(c["scss"]) + "\n"} for i, c in enumerate(cases)]
    res = C.run_cases(jobs, PID, watchdog=15.0)
    tpath = os.path.join(C.WORK, "trace-C10-%d.ndjson" % os.getpid())
    events = []
    judged = {}
    nrules = 0
    with open(tpath, "w") as f:
        for c, j, x in zip(cases, jobs, res):
            ctx.count(c["scss"])
            oc = x.get("outcome")
            if oc not in ("css", "error"):
                ctx.violation("@extend did not terminate normally: %s" % (x.get("panic") or oc),
                              {"src": j["src"], "outcome": oc, "class": "crash",
                               "deviation": "D_extend_cyclic_complex_blowup" if (oc in ("crash", "timeout") and not x.get("panic") and cyclic_complex(c["exts"])) else ""})
                continue
            if c["crossmedia"]:
                if oc != "error":
                    ctx.violation("an @extend inside @media reached (or ignored) a rule outside that @media block instead of failing",
                                  {"src": j["src"], "deviation": "D_extend_across_media", "css": x.get("css")})
                continue
            if c["missing"]:
                if oc != "error":
                    ctx.violation("extending a missing target without !optional must be an error",
                                  {"src": j["src"], "deviation": "D_extend_missing_target_ok", "css": x.get("css")})
                continue
            if oc == "error":
                ctx.violation("sheet with resolvable @extend failed: %s" % (x.get("err") or {}).get("message"), {"src": j["src"]})
                continue
            if "%" in x["css"]:
                ctx.violation("a placeholder selector reached the output", {"src": j["src"], "css": x["css"]})
                continue
            if len(x["css"]) > 3000000:
                ctx.extra["outputs_too_large_to_judge"] = ctx.extra.get("outputs_too_large_to_judge", 0) + 1
                if len(x["css"]) > ctx.extra.get("largest_output", {}).get("bytes", 0):
                    ctx.extra["largest_output"] = {"bytes": len(x["css"]), "scss": c["scss"]}
                continue
            outsel = {}
            outsel2 = {}
            try:
                for _, sel, ds in cssread.flatten(cssread.parse(x["css"])):
                    if ds:
                        for k, v in ds:
                            if k == "r":
                                outsel[int(v)] = selparse.parse_list(sel)
                            elif k == "r2":
                                outsel2[int(v)] = selparse.parse_list(sel)
            except (selparse.Unsupported, cssread.CssSyntaxError) as e:
                ctx.violation("emitted selector could not be read: %s" % e, {"src": j["src"], "css": x["css"]})
                continue
            observations = [(i, sel, outsel) for i, sel in enumerate(c["sels"])]
            observations += [(i, sel, outsel2) for i, sel in enumerate(c["sels"]) if c["inners"][i]]   # the rule's copy inside its own @media
            for i, sel, seen_sel in observations:
                # extensions that can reach this rule: top-level ones and those of its own @media block
                exts = [{"extender": t["extender"], "target": t["target"]} for t in c["exts"] if t["media"] in ("", c["medias"][i])]
                e = {"sel": sel, "exts": exts, "compoundonly": c["compoundonly"],
                     "gone": (i + 1) not in seen_sel, "out": seen_sel.get(i + 1, [])}
                if len(e["out"]) > 300:
                    # mutually extending complex extenders make grass emit selector lists of 1e5 complexes (finding F16 of the
                    # design notes: a resource blow-up, not a clause of C10); judging those on every DOM is out of reach
                    ctx.extra["outputs_too_large_to_judge"] = ctx.extra.get("outputs_too_large_to_judge", 0) + 1
                    if "largest_output" not in ctx.extra:
                        ctx.extra["largest_output"] = {"complexes": len(e["out"]), "scss": c["scss"]}
                    continue
                key = json.dumps(e, sort_keys=True)
                nrules += 1
                if key in judged:          # the same (selector, extensions, emitted selector) was already queued: one judgement serves both
                    continue
                judged[key] = len(events)
                e["id"] = len(events)
                events.append((j, i, x))
                f.write(json.dumps(e) + "\n")
    dist, gen, prints = C.tlc_trace_parallel("Trace_Extend", tpath, nchunks=12)
    ctx.states += dist
    ctx.transitions += gen
    ctx.validated += nrules
    ctx.extra["distinct_rule_events_judged"] = len(events)
    for kind, v in prints:
        if kind == "REJECT":
            j, i, x = events[v["id"]]
            ctx.violation("rule %d of the sheet: emitted selector does not match exactly the credited elements" % (i + 1),
                          {"src": j["src"], "rule": i + 1, "css": x.get("css"), "spec": "Trace_Extend.Allowed"})
    ctx.sample({"scss": cases[0]["scss"], "css": res[0].get("css")})
    os.remove(tpath)
    ctx.assumptions += ["same DOM universe and alphabet as C11; complex extenders are only required to match a subset (Sass omits interleavings)",
                        "specificity (second law) is not judged by this check; @media scoping is judged for sheets with one @extend (no chains through @media)"]
