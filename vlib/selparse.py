# An independent parser for the selectors grass prints, into the AST of Selectors.tla.
import re


class Unsupported(Exception):
    pass


def parse_list(text):
    text = text.strip()
    parts = split_top(text, ",")
    return [parse_complex(p) for p in parts]


def split_top(s, sep):
    out, depth, cur = [], 0, []
    for ch in s:
        if ch == "(":
            depth += 1
        elif ch == ")":
            depth -= 1
        if ch == sep and depth == 0:
            out.append("".join(cur))
            cur = []
        else:
            cur.append(ch)
    out.append("".join(cur))
    return [x.strip() for x in out if x.strip() != ""] if sep == "," else out


def parse_complex(text):
    """split at top-level combinators / white space (parentheses may nest to any depth)"""
    text = text.strip()
    out = []
    comb = ""
    i = 0
    n = len(text)
    while i < n:
        ch = text[i]
        if ch in " \t\n":
            j = i
            while j < n and text[j] in " \t\n":
                j += 1
            if comb == "" and out:
                comb = " "
            i = j
        elif ch in ">+~":
            comb = ch
            i += 1
        else:
            j = i
            depth = 0
            while j < n and (depth > 0 or text[j] not in " \t\n>+~"):
                if text[j] == "(":
                    depth += 1
                elif text[j] == ")":
                    depth -= 1
                j += 1
            out.append({"comb": comb if out else "", "cmp": parse_compound(text[i:j])})
            comb = ""
            i = j
    if not out:
        raise Unsupported("empty complex selector")
    return out


SIMPLE = re.compile(r"(\*|[a-zA-Z][-\w]*)|\.([-\w]+)|:(not|is|where|matches)\(|(::?[-\w]+)|(#[-\w]+)|(\[[^\]]*\])|(%[-\w]+)")


# The feature the model calls class 'y' can be spelled as an id, an attribute or a pseudo-class: element matching treats all
# four as one opaque boolean feature of an element, so the same generated case exercises grass' id/attribute/pseudo paths.
SPELLINGS = {"id": "#y", "attr": "[y]", "pseudo": ":hover"}


def respell(text, mode):
    """the selector text with every '.y' written in another spelling"""
    return re.sub(r"\.y(?![-\w])", SPELLINGS[mode], text)


def parse_compound(text):
    c = {"type": "", "cls": [], "nots": [], "iss": []}
    i = 0
    while i < len(text):
        m = SIMPLE.match(text, i)
        if not m:
            raise Unsupported("cannot read compound %r" % text[i:])
        if m.group(1) is not None:
            if i != 0:
                raise Unsupported("type selector in the middle of %r" % text)
            c["type"] = m.group(1)
            i = m.end()
        elif m.group(2) is not None:
            c["cls"].append(m.group(2))
            i = m.end()
        elif m.group(3) is not None:
            depth = 1
            j = m.end()
            while j < len(text) and depth:
                if text[j] == "(":
                    depth += 1
                elif text[j] == ")":
                    depth -= 1
                j += 1
            inner = parse_list(text[m.end():j - 1])
            (c["nots"] if m.group(3) == "not" else c["iss"]).append(inner)
            i = j
        elif m.group(7) is not None:
            c["cls"].append(m.group(7))          # a placeholder: a class no element ever has natively
            i = m.end()
        elif m.group(0) in SPELLINGS.values():
            c["cls"].append("y")                 # another spelling of the feature 'y' (see respell)
            i = m.end()
        else:
            raise Unsupported("selector outside the modelled alphabet: %r" % m.group(0))
    return c


def norm(text):
    return re.sub(r"\s+", " ", re.sub(r"\s*([>+~,])\s*", r" \1 ", text)).strip()


def compound_text(c):
    t = c["type"]
    t += "".join("." + k for k in c["cls"])
    for n in c["nots"]:
        t += ":not(" + list_text(n) + ")"
    for n in c["iss"]:
        t += ":is(" + list_text(n) + ")"
    return t or "*"


def complex_text(cx):
    out = ""
    for i, comp in enumerate(cx):
        if i > 0:
            out += " " if comp["comb"] == " " else " %s " % comp["comb"]
        out += compound_text(comp["cmp"])
    return out


def list_text(sl):
    return ", ".join(complex_text(cx) for cx in sl)
