# C04: nesting, `&`, @at-root and bubbling at-rules flatten to equivalent flat CSS.
import json
import os

from . import common as C
from . import cssread

PID = "C04"

CFG = """SPECIFICATION Spec
CONSTANTS
  MaxLen = %d
  MaxDepth = %d
  Menu = "%s"
  Spine = %s
CONSTRAINT Closable
INVARIANTS FlatKeepsAll Emit
CHECK_DEADLOCK FALSE
"""
QUICK = [("core", 7, 3, "FALSE"), ("amp", 6, 3, "FALSE"), ("atrules", 6, 3, "FALSE"), ("spine-media", 14, 5, "TRUE"), ("spine-layer", 14, 5, "TRUE"), ("nprops", 9, 4, "FALSE")]
THOROUGH = [("core", 9, 4, "FALSE"), ("amp", 8, 4, "FALSE"), ("atrules", 8, 4, "FALSE"), ("spine-media", 16, 6, "TRUE"), ("spine-layer", 16, 6, "TRUE"), ("nprops", 11, 5, "FALSE")]


def grouped(quads):
    by = {}
    for q in quads:
        by.setdefault((tuple(q["ctx"]), q["sel"]), []).append((q["prop"], q["val"], q["rid"]))
    return by


def is_subseq(sub, seq):
    it = iter(seq)
    return all(any(x == y for y in it) for x in sub)


def same(exp, got):
    """same keys, same declarations per key as a multiset, and the declarations written in ONE source block keep
    their order (where two source rules with equal selectors end up relative to each other is not judged)"""
    if set(exp) != set(got):
        return False
    for k, ev in exp.items():
        gv = [tuple(x) for x in got[k]]
        if sorted((p, v) for p, v, _ in ev) != sorted(gv):
            return False
        rids = {}
        for p, v, r in ev:
            rids.setdefault(r, []).append((p, v))
        for r, seq in rids.items():
            if len(seq) > 1 and not is_subseq(seq, gv):
                return False
    return True


def observed(css):
    by = {}
    for ctx, sel, decls in cssread.flatten(cssread.parse(css)):
        if decls is None:
            continue
        by.setdefault((tuple(c.strip() for c in ctx), sel), []).extend(decls)
    return {k: v for k, v in by.items() if v}


def run(ctx):
    ctx.rule = ("rule trees built instruction by instruction by MC_Nesting (menus: core nesting/media/supports/at-root/nested "
                "properties; parent-selector forms incl. lists, suffixes, repeated and mid-compound `&`, leading combinators; "
                "at-rules incl. unknown at-rules with parameters and every @at-root query) within length/depth bounds; "
                "expectation = Flatten.Flat; non-trivial = distinct tree with at least one declaration")
    plan = QUICK if ctx.tier == "quick" else THOROUGH
    cases = []
    for menu, ml, md, spine in plan:
        r = C.tlc("MC_Nesting", cfg_text=CFG % (ml, md, menu, spine), workers=8, timeout=3000, metaname="nest-" + menu)
        C.tlc_must_pass(r, "MC_Nesting/" + menu)
        ctx.add_tlc(r)
        for c in r.cases:
            c["menu"] = menu
        cases.extend(r.cases)
    jobs = [{"id": i, "src": "\n".join(c["scss"]) + "\n"} for i, c in enumerate(cases)]
    res = C.run_cases(jobs, PID)
    for c, j, x in zip(cases, jobs, res):
        ctx.count(c["scss"], nontrivial=bool(c["flat"]))
        ctx.validated += 1
        if x.get("outcome") != "css":
            ctx.violation("specification expects CSS, grass: %s %s" % (x.get("outcome"), (x.get("err") or {}).get("message") or x.get("panic")),
                          {"scss": j["src"], "menu": c["menu"], "expected": c["flat"], "observed": {k: x.get(k) for k in ("outcome", "err", "panic")}})
            continue
        try:
            got = observed(x["css"])
        except cssread.CssSyntaxError as e:
            ctx.violation("output not well-formed: %s" % e, {"scss": j["src"], "css": x["css"]})
            continue
        exp = grouped(c["flat"])
        if not same(exp, got):
            ctx.violation("flattened (context, selector, declarations) differ",
                          {"scss": j["src"], "menu": c["menu"], "expected": {str(k): v for k, v in exp.items()},
                           "observed": {str(k): v for k, v in got.items()}, "css": x["css"], "spec": "Flatten.Flat"})
    for c, x in list(zip(cases, res))[100:103]:
        ctx.sample({"scss": c["scss"], "flat": c["flat"], "css": x.get("css")})
    ctx.assumptions += ["compared as: for every (at-rule context path, selector list) the sequence of its declarations in output order; "
                        "where blocks are split or hoisted is not judged", "nested @media limited to a type query with a feature query inside (general merging: C17)"]
