# C08: units convert by the CSS ratios and unit algebra is consistent.
import json
import math
from fractions import Fraction

from . import common as C
from . import cssread
from . import numcmp

PID = "C08"

CFG = """SPECIFICATION Spec
CONSTANTS
  Ops = {%s}
  M1 = %d
  M2 = %d
  UnitsUsed = {%s}
INVARIANTS RoundTrip Transitive ClassesPartition Emit
CHECK_DEADLOCK FALSE
"""
ALLOPS = ["+", "-", "%", "<", ">=", "==", "!=", "*", "compatible", "unit", "unit*", "div", "unitdiv", "min", "max", "min3", "max3", "divmul", "muldiv"]
UNITS = ["px", "in", "cm", "mm", "q", "pt", "pc", "deg", "grad", "rad", "turn", "s", "ms", "Hz", "kHz", "dpi", "dpcm", "dppx", "em", "rem", "lh",
         "ex", "ch", "cap", "ic", "rlh", "vw", "vh", "vmin", "vmax", "vi", "vb", "fr", "%", "foo"]


def q(xs):
    return ", ".join('"%s"' % x for x in xs)


def judge(c, x, m1, m2):
    e = c["expect"]
    if e["k"] == "open":
        return None
    oc = x.get("outcome")
    if oc not in ("css", "error"):
        return "ended with %s" % oc
    if e["k"] == "error":
        return None if oc == "error" else "expected an error, got %r" % (x.get("css"),)
    if oc != "css":
        return "expected a value, got error: %s" % (x.get("err") or {}).get("message")
    decl = None
    for _, sel, decls in cssread.flatten(cssread.parse(x["css"])):
        if decls:
            decl = dict(decls).get("r")
    if decl is None:
        return "no declaration in output %r" % x["css"]
    if e["k"] == "bool":
        return None if decl == ("true" if e["v"] else "false") else "expected %s, got %s" % (e["v"], decl)
    if e["k"] == "str":
        return None if decl.lower() == e["v"].lower() else "expected %s, got %s" % (e["v"], decl)
    got = numcmp.parse_num(decl)
    if e["k"] == "num":
        if got is None:
            return "expected a number, got %s" % decl
        val = Fraction(e["n"], e["d"])
        if got[1].lower() != e["unit"].lower():
            return "expected unit %r, got %s" % (e["unit"], decl)
        if numcmp.close(got[0], val):
            return None
        if c["op"] == "%" and e.get("modulus") is None:
            # in binary floating point a remainder that is exactly 0 may come out as (almost) the divisor: equal modulo the divisor
            b = Fraction(m2) * Fraction(*c["bfactor"]) if c.get("bfactor") else None
            if b is not None and (numcmp.close(got[0] - b, val) or numcmp.close(got[0] + b, val)):
                return None
        return "expected %s%s, got %s" % (float(val), e["unit"], decl)
    if e["k"] == "pi":
        # second operand expressed in the first one's unit is q * pi^pe
        b = float(Fraction(e["q"][0], e["q"][1])) * math.pi ** e["pe"]
        a = float(m1)
        op = e["op"]
        if op in ("<", ">", "<=", ">="):
            want = {"<": a < b, ">": a > b, "<=": a <= b, ">=": a >= b}[op]
            return None if decl == ("true" if want else "false") else "expected %s, got %s" % (want, decl)
        if op in ("min", "max"):
            first = (a < b) if op == "min" else (a > b)
            want_unit = c["u"][0] if first else c["u"][1]
            want_val = m1 if first else m2
            if got is None or got[1].lower() != want_unit.lower() or not numcmp.close(got[0], want_val):
                return "expected %s%s, got %s" % (want_val, want_unit, decl)
            return None
        val = {"+": a + b, "-": a - b, "%": a - b * math.floor(a / b), "div": a / b}[op]
        if got is None or got[1].lower() != e["unit"].lower() or not numcmp.close(got[0], val):
            return "expected %s%s, got %s" % (val, e["unit"], decl)
        return None
    return "unknown expectation"


def run(ctx):
    ctx.rule = ("TLC enumerates operation x unit x unit (x unit) over the 34 known units, an unknown unit and unitless: + - % < >= == != * "
                "math.compatible math.unit math.div min max, three-argument min/max inside a unit class, and division-then-"
                "multiplication chains whose convertible pair must cancel; expectation = exact rational (times a power of pi for "
                "rad) from Units.tla; non-trivial = distinct (operation, units) with a decided expectation")
    plans = [(ALLOPS, 3, 2, UNITS)]
    if ctx.tier == "thorough":
        plans += [(ALLOPS, 7, 5, UNITS), (["+", "-", "%", "<", ">=", "==", "div", "min", "max", "divmul", "muldiv"], 1, 96, UNITS)]
    for ops, m1, m2, units in plans:
        r = C.tlc("MC_Units", cfg_text=CFG % (q(ops), m1, m2, q(units)), workers=8, timeout=3000)
        C.tlc_must_pass(r, "MC_Units")
        ctx.add_tlc(r)
        cases = r.cases
        jobs = [{"id": i, "src": "@use \"sass:math\";\na { r: %s; }\n" % c["expr"]} for i, c in enumerate(cases)]
        res = C.run_cases(jobs, PID)
        for c, j, x in zip(cases, jobs, res):
            ctx.count([c["expr"]], nontrivial=c["expect"]["k"] != "open")
            ctx.validated += 1
            why = judge(c, x, m1, m2)
            if why:
                ctx.violation("%s: %s" % (c["expr"], why), {"src": j["src"], "op": c["op"], "units": c["u"], "expected": c["expect"],
                                                            "observed": {k: x.get(k) for k in ("outcome", "css", "err")}, "spec": "MC_Units.Expect"})
        for c, x in list(zip(cases, res))[1000:1003]:
            ctx.sample({"expr": c["expr"], "expect": c["expect"], "css": x.get("css")})
    ctx.assumptions += ["printed numbers are compared with the exact value within 1e-9 relative / 1.5e-10 absolute (the printer keeps 10 fractional digits)",
                        "left open: min/max of a unitless number and a number with a unit; ties; rad inside 3-argument min/max"]
