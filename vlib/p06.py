# C06: output style changes only formatting, never meaning or evaluation.
import json
import re
import os

from . import common as C
from . import csstok
from . import sources
from . import p05

PID = "C06"
TEXT_CONTEXTS = {"strlen", "concat-left", "concat-right", "cmp-interp", "selector", "propname", "debug-interp", "if-strlen", "str-index",
                 "upper", "slice", "warn", "media", "url", "comment", "comment-effect", "quote-interp", "map-key", "unique", "each-interp",
                 "function-name", "custom-prop", "supports"}


def side(x):
    oc = x.get("outcome")
    return {"outcome": oc, "message": (x.get("err") or {}).get("message", "") if oc == "error" else "",
            "log": [[m["kind"], m["msg"], m["line"]] for m in x.get("log", [])],
            "toks": csstok.canon_stream(x["css"]) if oc == "css" else []}


def log_only_style_difference(se, sc, e, c):
    """F11 through the logger: identical token streams and outcomes, and messages that differ only by the compressed spelling of a
    comma separator or a leading zero (what value-to-text conversion with the output style produces)."""
    if se["toks"] != sc["toks"] or e.get("outcome") != c.get("outcome"):
        return False
    le, lc = e.get("log") or [], c.get("log") or []
    if len(le) != len(lc) or le == lc:
        return False

    def squeeze(m):
        return re.sub(r"(?<![0-9])0\.", ".", re.sub(r",\s+", ",", m))
    return all(a.get("kind") == b.get("kind") and a.get("line") == b.get("line") and squeeze(a.get("msg", "")) == squeeze(b.get("msg", ""))
               for a, b in zip(le, lc))


def run(ctx):
    ctx.rule = ("every input is compiled expanded and compressed; inputs: value x text-conversion-context programs (MC_Style), "
                "string/escape sheets (MC_Sheet), MC_Eval programs, MC_Nesting trees and the golden corpus; one event per "
                "input judged by Trace_Style (CssTokens.StyleEquivalent, equal outcome/error/log); non-trivial = distinct input "
                "that produced CSS or log output")
    thorough = ctx.tier == "thorough"
    inputs = []
    r = C.tlc("MC_Style", workers=4, timeout=600)
    C.tlc_must_pass(r, "MC_Style")
    ctx.add_tlc(r)
    inputs += [{"src": "\n".join(c["scss"]) + "\n", "kind": "style", "vclass": c["vclass"], "ctx": c["ctx"]} for c in r.cases]
    r = C.tlc("MC_Sheet", cfg_text=p05.SHEET_CFG % (3 if thorough else 2, "strings"), workers=6, timeout=1200)
    C.tlc_must_pass(r, "MC_Sheet")
    ctx.add_tlc(r)
    inputs += [{"src": "\n".join(c["scss"]) + "\n", "kind": "sheet"} for c in r.cases]
    r = C.tlc("MC_Sheet", cfg_text=p05.SHEET_CFG % (2, "forms"), workers=6, timeout=1200)
    C.tlc_must_pass(r, "MC_Sheet/forms")
    ctx.add_tlc(r)
    inputs += [{"src": "\n".join(c["scss"]) + "\n", "kind": "sheet"} for c in r.cases]
    ev = sources.eval_programs(ctx, [("ops", 2, 1), ("scope", 4, 2)] if not thorough else [("ops", 2, 1), ("scope", 5, 2), ("control", 4, 2), ("diag", 4, 2)])
    inputs += [{"src": "\n".join(c["scss"]) + "\n", "kind": "eval"} for c in ev]
    ne = sources.nesting_programs(ctx, [("core", 5, 3)] if not thorough else [("core", 7, 3), ("atrules", 6, 3)])
    inputs += [{"src": "\n".join(c["scss"]) + "\n", "kind": "nest"} for c in ne]
    inputs += [{"src": c["input"], "kind": "corpus", "name": c["file"] + "::" + c["name"]} for c in sources.corpus_ok(ctx, None if thorough else 1200)]
    jobs = []
    for i, inp in enumerate(inputs):
        jobs.append({"id": 2 * i, "src": inp["src"], "style": "expanded"})
        jobs.append({"id": 2 * i + 1, "src": inp["src"], "style": "compressed"})
    res = C.run_cases(jobs, PID)
    tpath = os.path.join(C.WORK, "trace-C06-%d.ndjson" % os.getpid())
    with open(tpath, "w") as f:
        for i, inp in enumerate(inputs):
            e, c = res[2 * i], res[2 * i + 1]
            if e.get("outcome") not in ("css", "error") or c.get("outcome") not in ("css", "error"):
                ctx.violation("compilation ended with %s / %s" % (e.get("outcome"), c.get("outcome")), {"src": inp["src"], "kind": inp["kind"]})
                continue
            ctx.count(inp["src"], nontrivial=bool((e.get("css") or "").strip() or e.get("log")))
            se, sc = side(e), side(c)
            if any(t[0] in ("badstr", "badcomment") for t in se["toks"] + sc["toks"]):
                continue          # an unterminated string swallows what follows it: token streams are not comparable
            f.write(json.dumps({"id": i, "e": se, "c": sc}) + "\n")
    tr = C.tlc("Trace_Style", workers=1, dfs=True, env={"TRACE": tpath}, timeout=3000, heap="12g")
    ctx.add_tlc(tr)
    if tr.rc != 0 and not any(k == "REJECT" for k, _ in tr.prints):
        C.log(tr.out[-3000:])
        raise C.ToolError("Trace_Style failed")
    ctx.validated += len(inputs)
    for kind, v in tr.prints:
        if kind == "REJECT":
            i = v["id"]
            inp = inputs[i]
            e, c = res[2 * i], res[2 * i + 1]
            dev = ""
            if inp["kind"] == "style" and inp["vclass"] in ("frac", "color", "commalist") and inp["ctx"] in TEXT_CONTEXTS:
                dev = "D_interp_uses_output_style"
            elif inp["kind"] == "eval" and log_only_style_difference(side(e), side(c), e, c):
                dev = "D_interp_uses_output_style"       # the same defect seen through @debug/@warn: the message text of a list/number
            ctx.violation("expanded and compressed output differ in more than formatting",
                          {"src": inp["src"], "kind": inp["kind"], "vclass": inp.get("vclass", ""), "context": inp.get("ctx", ""),
                           "corpus_entry": inp.get("name", ""), "deviation": dev,
                           "expanded": {k: e.get(k) for k in ("outcome", "css", "log", "err")},
                           "compressed": {k: c.get(k) for k in ("outcome", "css", "log", "err")}, "spec": "Trace_Style.Allowed"})
    for i in (0, 1, len(inputs) // 2):
        ctx.sample({"src": inputs[i]["src"], "expanded": res[2 * i].get("css"), "compressed": res[2 * i + 1].get("css")})
    os.remove(tpath)
    ctx.assumptions += ["numbers are compared after canonical spelling (<= 10 fractional digits, no leading zero) and colours in declaration values as #rrggbb; this normalisation is done by the checker's tokenizer",
                        "F11 (interpolating fractions, colours and comma lists uses the output style) is attributed only to MC_Style cases whose value class and context are the text-conversion ones, and to the corpus entries named in known_findings.jsonl"]
