# C13: imports follow the documented search order, only through the supplied Fs.
import json
import os
import re
import shutil

from . import common as C
from . import cssread

PID = "C13"

CFG = """SPECIFICATION Spec
CONSTANTS
  MaxFiles = %d
  Urls = {%s}
  Kinds = {%s}
  Importers = {%s}
  LoadPathLists = {%s}
INVARIANTS ResolveSound DecoysInert EmitCase
CHECK_DEADLOCK FALSE
"""


def q(xs):
    return ", ".join('"%s"' % x for x in xs)


def marker(path):
    return ".m-" + re.sub(r"[^A-Za-z0-9]", "-", path)


def content(path):
    m = marker(path)
    if path.endswith(".sass"):
        return "%s\n  x: 1 + 1\n" % m          # only parses as indented syntax
    if path.endswith(".css"):
        return "%s { x: y; }\n" % m           # plain CSS (operators are not allowed there)
    return "%s { x: 1 + 1; }\n" % m           # only parses as SCSS


def real_disk_decoys(d):
    """files that exist only on the real disk, in the worker's working directory"""
    shutil.rmtree(d, ignore_errors=True)
    for sub in ("", "d/", "sub/", "sub/d/", "lp1/", "lp2/", "lp1/d/", "lp2/d/"):
        os.makedirs(os.path.join(d, sub), exist_ok=True)
        for name in ("foo.scss", "_foo.scss", "foo.sass", "foo.css", "foo.bar.scss", "foo.import.scss"):
            with open(os.path.join(d, sub, name), "w") as f:
                f.write(".real-disk\n  x: y\n" if name.endswith(".sass") else ".real-disk { x: y; }\n")
        os.makedirs(os.path.join(d, sub, "foo"), exist_ok=True)
        with open(os.path.join(d, sub, "foo", "index.scss"), "w") as f:
            f.write(".real-disk { x: y; }\n")


def run(ctx):
    ctx.rule = ("TLC enumerates virtual layouts: URL x rule kind x importer location x load paths x every unambiguous "
                "set of <= MaxFiles files drawn from all candidates at all locations plus never-candidate decoys; the "
                "worker runs in a directory whose real disk holds files at the candidate names; non-trivial = distinct "
                "layout (all are: each has an expected resolution or error)")
    if ctx.tier == "quick":
        plans = [(2, ["foo", "foo.bar", "foo.scss"], ["import", "use"], ["root", "sub"], [0, 1]),
                 (1, ["foo", "d/foo", "foo.sass", "foo.css", "d/foo.scss"], ["import", "use", "forward"], ["root", "sub"], [0, 2]),
                 (2, ["foo"], ["import", "use"], ["both"], [1])]
    else:
        plans = [(3, ["foo", "foo.bar"], ["import", "use"], ["root"], [0, 1]),
                 (2, ["foo", "d/foo", "foo.bar", "foo.scss", "foo.sass", "foo.css", "d/foo.scss"], ["import", "use", "forward"], ["root", "sub"], [0, 1, 2]),
                 (2, ["foo", "foo.scss", "d/foo"], ["import", "use"], ["both"], [0, 1, 2]),
                 (3, ["foo"], ["import", "use"], ["both"], [1])]
    cases = []
    for mf, urls, kinds, imps, lpl in plans:
        r = C.tlc("MC_Imports", cfg_text=CFG % (mf, q(urls), q(kinds), q(imps), ", ".join(map(str, lpl))), workers=8,
                  timeout=3000)
        C.tlc_must_pass(r, "MC_Imports")
        ctx.add_tlc(r)
        cases.extend(r.cases)
    seen = set()
    uniq = []
    for c in cases:
        k = json.dumps([c["url"], c["kind"], c["importer"], c["lps"], sorted(c["files"])])
        if k not in seen:
            seen.add(k)
            uniq.append(c)
    cases = uniq
    jobs = []
    for i, c in enumerate(cases):
        files = {p: content(p) for p in c["files"]}
        stmt = {"import": '@import "%s";', "use": '@use "%s";', "forward": '@forward "%s";'}[c["kind"]] % c["url"]
        job = {"id": i, "files": files, "load_paths": c["lps"]}
        if c["importer"] == "root":
            job["src"] = stmt + "\n"
            c["_entry"] = ["stdin"]
            c["_importerfile"] = "stdin"
        elif c["importer"] == "both":
            go = {"import": '@import "sub/go";', "use": '@use "sub/go";', "forward": '@forward "sub/go";'}[c["kind"]]
            job["src"] = stmt + "\n" + go + "\n"
            files["sub/_go.scss"] = stmt + "\n"
            c["_entry"] = ["stdin", "sub/_go.scss"]
            c["_importerfile"] = "stdin"
        else:
            files["sub/main.scss"] = stmt + "\n"
            job["entry"] = "sub/main.scss"
            c["_entry"] = ["sub/main.scss"]
            c["_importerfile"] = "sub/main.scss"
        jobs.append(job)
    decoy_dir = os.path.join(C.WORK, "c13-realdisk")
    real_disk_decoys(decoy_dir)
    res = C.run_cases(jobs, PID, cwd=decoy_dir)
    tpath = os.path.join(C.WORK, "trace-C13-%d.ndjson" % os.getpid())
    n = 0
    with open(tpath, "w") as f:
        for i, (c, j, x) in enumerate(zip(cases, jobs, res)):
            ctx.count([c["url"], c["kind"], c["importer"], c["lps"], sorted(c["files"])])
            oc = x.get("outcome")
            if oc not in ("css", "error"):
                ctx.violation("compilation ended with %s" % oc, {"job": j, "observed": x})
                continue
            markers, syntaxseen, hasimp = [], [], False
            if oc == "css":
                try:
                    nodes = cssread.parse(x["css"])
                except cssread.CssSyntaxError as e:
                    ctx.violation("output not well-formed: %s" % e, {"job": j, "observed": x})
                    continue
                byname = {marker(p): p for p in c["files"]}
                for ctxp, sel, decls in cssread.flatten(nodes):
                    if decls is None:
                        if sel.startswith("@import"):
                            hasimp = True
                        continue
                    markers.append(byname.get(sel, sel))
                    val = dict(decls).get("x")
                    p = byname.get(sel, "")
                    if val == "y":
                        syntaxseen.append("css")
                    elif val == "2":
                        syntaxseen.append("sass" if p.endswith(".sass") else "scss")
                    else:
                        syntaxseen.append("?")
            err = x.get("err") or {}
            two = c["importer"] == "both"
            if two and c["kind"] != "import" and c["resolved"] == c["resolved2"]:
                em, es = [c["resolved"]], [c["syntax"]]            # a module is loaded once
            elif two:
                em, es = [c["resolved"], c["resolved2"]], [c["syntax"], c["syntax2"]]
            else:
                em, es = [c["resolved"]], [c["syntax"]]
            rec = {"two": two, "resolved2": c["resolved2"], "expectmarkers": em, "expectsyntax": es,"id": i, "fs": [{"op": e["op"], "norm": e["norm"]} for e in x.get("fs", [])],
                   "confinement": c["confinement"], "dirtests": c["dirtests"], "entry": c["_entry"],
                   "resolved": c["resolved"], "syntax": c["syntax"], "plaincss": c["plaincss"],
                   "outcome": oc, "markers": markers, "syntaxseen": syntaxseen,
                   "hasimportrule": hasimp, "errfile": err.get("file", ""), "errline": err.get("bline", 0),
                   "importerfile": c["_importerfile"]}
            f.write(json.dumps(rec) + "\n")
            n += 1
    tr = C.tlc("Trace_Imports", workers=1, dfs=True, env={"TRACE": tpath}, timeout=3000, heap="8g")
    ctx.add_tlc(tr)
    if tr.rc != 0 and not any(k == "REJECT" for k, _ in tr.prints):
        C.log(tr.out[-3000:])
        raise C.ToolError("Trace_Imports failed")
    ctx.validated += n
    for kind, v in tr.prints:
        if kind == "REJECT":
            i = v["id"]
            c = cases[i]
            ctx.violation("import resolution not allowed by ImportSearch: %s" % json.dumps(v),
                          {"job": jobs[i], "url": c["url"], "kind": c["kind"], "expected_resolved": c["resolved"],
                           "ext": os.path.splitext(c["url"])[1], "nfiles": len(c["files"]),
                           "observed": {k: res[i].get(k) for k in ("outcome", "css", "err", "fs")},
                           "judgement": v, "spec": "Trace_Imports.Allowed"})
    for c, x in list(zip(cases, res))[:3]:
        ctx.sample({"url": c["url"], "kind": c["kind"], "importer": c["importer"], "load_paths": c["lps"],
                    "files": c["files"], "expected": c["resolved"], "css": x.get("css")})
    os.remove(tpath)
    plain_imports(ctx, decoy_dir)
    shutil.rmtree(decoy_dir, ignore_errors=True)
    ctx.assumptions += ["layouts with two same-priority candidates in one location are excluded (property text)",
                        "file contents are marker rules whose value '1 + 1' distinguishes CSS from Sass parsing"]


def plain_imports(ctx, decoy_dir):
    """url(), http(s)://, //, *.css and imports with media/supports modifiers are CSS @import rules: nothing is looked up."""
    r = C.tlc("MC_PlainImports", cfg_text="SPECIFICATION Spec\nINVARIANT Emit\nCHECK_DEADLOCK FALSE\n", workers=4, timeout=1200)
    C.tlc_must_pass(r, "MC_PlainImports")
    ctx.add_tlc(r)
    cases = r.cases
    jobs = []
    for i, c in enumerate(cases):
        files = {p_: content(p_) for p_ in c["files"]}
        files["_other.scss"] = ".other { x: y; }\n"
        jobs.append({"id": i, "src": "\n".join(c["sheet"]) + "\n", "files": files})
    res = C.run_cases(jobs, PID + "-plain", cwd=decoy_dir)
    for c, j, x in zip(cases, jobs, res):
        ctx.count(["plain", c["form"], c["where"], sorted(c["files"])])
        rep = {"job": j, "form": c["form"], "observed": {k: x.get(k) for k in ("outcome", "css", "err", "fs")}, "spec": "MC_PlainImports.IsPlain"}
        if x.get("outcome") != "css":
            ctx.violation("a plain-CSS @import (%s) did not compile: %s" % (c["form"], x.get("outcome")), rep)
            continue
        css = x["css"]
        want = "@import " + c["text"]
        if want.replace(" ", "") not in css.replace(" ", ""):
            ctx.violation("plain-CSS @import (%s) was not emitted as a CSS @import rule" % c["form"], rep)
            continue
        if any(marker(p_) in css for p_ in c["files"]) or ".real-disk" in css:
            ctx.violation("a plain-CSS @import (%s) loaded a file" % c["form"], rep)
            continue
        touched = [e for e in x.get("fs", []) if "other" not in e.get("norm", "") and e.get("norm") != "stdin"]   # the entry and the Sass import beside it
        if touched:
            ctx.violation("a plain-CSS @import (%s) went to the file system: %s" % (c["form"], touched[:3]), rep)
            continue
        ctx.validated += 1
    ctx.extra["plain_css_import_cases"] = len(cases)
