# C05: output is well-formed, Sass-free CSS and a fixed point of the compiler.
import json
import os
import re

from . import common as C
from . import cssread
from . import csstok
from . import sources

PID = "C05"

SHEET_CFG = """SPECIFICATION Spec
CONSTANTS
  MaxStr = %d
  Mode = "%s"
INVARIANT Emit
CHECK_DEADLOCK FALSE
"""
CONFIGS = [("expanded", True), ("compressed", True), ("expanded", False), ("compressed", False)]


def canon_value(text):
    """a declaration value with numbers and colours in canonical spelling and strings compared by content: what must survive a
    round trip is the value, not its spelling ('#ffffff' may come back as '#fff', "''" as '""')"""
    toks = csstok.canon_stream("a{b:" + text + "}")
    # strip the wrapper: ident a, {, ident b, colon ... }
    k = next((i for i, t in enumerate(toks) if t[0] == "colon"), -1)
    body = toks[k + 1:]
    while body and body[-1][0] in ("}", "ws", "semi"):
        body = body[:-1]
    out = []
    for cls, t in body:
        if cls == "ws":
            continue
        if cls == "str" and len(t) >= 2 and t[0] == "'" and t[-1] == "'" and '"' not in t and "\\" not in t:
            t = '"' + t[1:-1] + '"'
        out.append(t)
    return " ".join(out)


def flat_of(css):
    out = []
    for ctx, sel, decls in cssread.flatten(cssread.parse(css)):
        if sel.startswith("@charset"):
            continue
        if decls is not None and not decls:
            continue          # a rule without declarations ('a{}' left by a dropped comment) carries nothing to reproduce
        out.append({"ctx": list(ctx), "sel": sel,
                    "decls": [[d[0], canon_value(d[1])] for d in decls] if decls is not None else []})
    return out


def values_of(css):
    vals = []
    sels = True

    def walk(nodes):
        nonlocal sels
        for nd in nodes:
            if nd["type"] == "decl":
                if any("\\" in t[1] for t in csstok.tokenize(nd["value"]) if t[0] != "str"):
                    sels = False      # escapes outside strings: the checker's tokenizer does not model them
                if not nd["name"].startswith("--"):
                    vals.append(csstok.tokenize(nd["value"]))
            elif nd["type"] == "rule":
                if not re.fullmatch(r"[-\w#.:>+~*\[\]=\"' ,()%^$|\u0080-\U0010ffff]*", nd["prelude"]) or "\\" in nd["prelude"]:
                    sels = False
                walk(nd["children"])
            elif nd["type"] == "at":
                if not re.fullmatch(r"[-\w#.:>+~*\[\]=\"' ,()%/\u0080-\U0010ffff]*", nd["prelude"]) or "\\" in nd["prelude"] or "(:" in nd["prelude"] \
                        or ("@" + nd["name"]) in ("@if", "@else", "@each", "@for", "@while"):
                    sels = False
                if nd["children"]:
                    walk(nd["children"])
    walk(cssread.parse(css))
    return vals, sels


def run(ctx):
    ctx.rule = ("inputs: TLC-generated string/escape sheets and non-ASCII placements (MC_Sheet), programs of MC_Eval and rule "
                "trees of MC_Nesting, and golden-corpus entries; each x {expanded, compressed} x {charset on, off}; every "
                "successful compilation is one event (tokens, charset facts, re-compilation as CSS and SCSS) judged by "
                "Trace_Css; non-trivial = distinct (input, configuration) that produced non-empty CSS")
    thorough = ctx.tier == "thorough"
    inputs = []
    for mode, ms in (("strings", 3 if thorough else 2), ("placements", 1), ("forms", 2)):
        r = C.tlc("MC_Sheet", cfg_text=SHEET_CFG % (ms, mode), workers=6, timeout=1200, metaname="sheet-" + mode)
        C.tlc_must_pass(r, "MC_Sheet/" + mode)
        ctx.add_tlc(r)
        inputs += [{"src": "\n".join(c["scss"]) + "\n", "kind": "sheet-" + mode} for c in r.cases]
    ev = sources.eval_programs(ctx, [("scope", 4, 2), ("ops", 2, 1)] if not thorough else [("scope", 5, 2), ("ops", 2, 1), ("control", 4, 2)])
    inputs += [{"src": "\n".join(c["scss"]) + "\n", "kind": "eval"} for c in ev if any(o[0] == "decl" for o in c["out"])]
    ne = sources.nesting_programs(ctx, [("core", 5, 3), ("atrules", 5, 3)] if not thorough else [("core", 7, 3), ("amp", 6, 3), ("atrules", 6, 3)])
    inputs += [{"src": "\n".join(c["scss"]) + "\n", "kind": "nest"} for c in ne]
    inputs += [{"src": c["input"], "kind": "corpus"} for c in sources.corpus_ok(ctx, None if thorough else 400)]
    jobs = []
    for i, inp in enumerate(inputs):
        for st, ch in (CONFIGS if (thorough or inp["kind"].startswith("sheet") or i % 3 == 0) else [CONFIGS[i % 4]]):
            jobs.append({"id": len(jobs), "src": inp["src"], "style": st, "charset": ch, "_kind": inp["kind"]})
    res = C.run_cases([{k: v for k, v in j.items() if not k.startswith("_")} for j in jobs], PID)
    again = []
    idx = []
    for j, x in zip(jobs, res):
        if x.get("outcome") == "css" and x.get("css") is not None:
            for syn in ("css", "scss"):
                again.append({"id": len(again), "src": x["css"], "syntax": syn, "style": j["style"], "charset": j["charset"]})
                idx.append((j["id"], syn))
    ares = C.run_cases(again, PID + "-again")
    amap = {k: v for k, v in zip(idx, ares)}
    tpath = os.path.join(C.WORK, "trace-C05-%d.ndjson" % os.getpid())
    n = 0
    with open(tpath, "w") as f:
        for j, x in zip(jobs, res):
            if x.get("outcome") != "css":
                continue      # failing inputs are not in this property's scope
            css = x["css"]
            ctx.count([j["src"], j["style"], j["charset"]], nontrivial=bool(css.strip()))
            body = css[1:] if css.startswith("﻿") else css
            try:
                flat = flat_of(css)
                vals, selok = values_of(css)
                parsed = True
            except cssread.CssSyntaxError:
                flat, vals, selok, parsed = [], [], False, False

            def redo(syn):
                a = amap.get((j["id"], syn)) or {}
                if a.get("outcome") != "css":
                    return {"ok": False, "flat": []}
                try:
                    return {"ok": True, "flat": flat_of(a["css"])}
                except cssread.CssSyntaxError:
                    return {"ok": False, "flat": []}
            rec = {"id": j["id"], "utf8": bool(x.get("utf8")), "toks": csstok.tokenize(css) if parsed or True else [],
                   "nonascii": any(ord(ch) > 127 for ch in body), "allow": j["charset"], "compressed": j["style"] == "compressed",
                   "hascharset": css.startswith("@charset"), "hasbom": css.startswith("﻿"),
                   "values": vals, "selectorsok": selok and parsed, "flat": flat, "ascss": redo("css"), "asscss": redo("scss")}
            f.write(json.dumps(rec) + "\n")
            n += 1
    tr = C.tlc("Trace_Css", workers=1, dfs=True, env={"TRACE": tpath}, timeout=3000, heap="12g")
    ctx.add_tlc(tr)
    if tr.rc != 0 and not any(k == "REJECT" for k, _ in tr.prints):
        C.log(tr.out[-3000:])
        raise C.ToolError("Trace_Css failed")
    ctx.validated += n
    for kind, v in tr.prints:
        if kind == "REJECT":
            j = jobs[v["id"]]
            x = res[v["id"]]
            why = [k for k in ("utf8", "wellformed", "sassfree", "charset", "ascss", "asscss") if not v[k]]
            ctx.violation("output violates %s" % ", ".join(why),
                          {"job": {k: j[k] for k in ("src", "style", "charset")}, "kind": j["_kind"], "failed": why, "css": x.get("css"),
                           "as_css": {k: (amap.get((j["id"], "css")) or {}).get(k) for k in ("outcome", "css", "err")},
                           "as_scss": {k: (amap.get((j["id"], "scss")) or {}).get(k) for k in ("outcome", "css", "err")},
                           "spec": "Trace_Css.Allowed"})
    for j, x in list(zip(jobs, res))[:3]:
        ctx.sample({"src": j["src"], "style": j["style"], "charset": j["charset"], "css": x.get("css")})
    os.remove(tpath)
    ctx.assumptions += ["only outputs whose declaration values pass CssTokens.RepresentableValue (and whose selectors are plain) are required to be a fixed point; the others are still checked for well-formedness, Sass-freeness and the charset rule",
                        "UTF-8 validity is reported by the worker (str::from_utf8 on the returned buffer)"]
