# C16: calc()/min()/max()/clamp() simplification preserves the computed value.
import json
import os
import re
from fractions import Fraction

from . import common as C
from . import cssread

PID = "C16"

CFG = """SPECIFICATION Spec
CONSTANTS
  MaxDepth = %d
  Leafs = {%s}
  Ops = {%s}
  Fns = {%s}
INVARIANTS FoldIsEnvFree Emit
CHECK_DEADLOCK FALSE
"""

TOK = re.compile(r"\s*(?:(?P<num>-?(?:\d+\.?\d*|\.\d+)(?:e[+-]?\d+)?)(?P<unit>[a-zA-Z%]*)|(?P<fn>calc|min|max|clamp|var)\(|(?P<id>--[\w-]+)|(?P<op>[-+*/(),]))")


class ParseError(Exception):
    pass


def parse_calc(text):
    toks = []
    i = 0
    while i < len(text):
        m = TOK.match(text, i)
        if not m or m.end() == i:
            if text[i:].strip() == "":
                break
            raise ParseError("cannot tokenize %r" % text[i:i + 20])
        i = m.end()
        if m.group("num") is not None:
            toks.append(("num", m.group("num"), m.group("unit")))
        elif m.group("fn"):
            toks.append(("fn", m.group("fn")))
        elif m.group("id"):
            toks.append(("id", m.group("id")))
        else:
            toks.append(("op", m.group("op")))
    pos = [0]

    def peek():
        return toks[pos[0]] if pos[0] < len(toks) else None

    def eat():
        t = peek()
        pos[0] += 1
        return t

    def num(text_, unit):
        f = Fraction(text_)
        if f.denominator > 10 ** 6:
            f = f.limit_denominator(10000)       # 1.3333333333 is 4/3 printed to 10 digits
        if abs(f.numerator) > 2 * 10 ** 9 or f.denominator > 2 * 10 ** 9:
            raise ParseError("number out of the judge's range")
        return {"t": "num", "n": f.numerator, "d": f.denominator, "u": unit}

    def atom():
        t = eat()
        if t is None:
            raise ParseError("unexpected end")
        if t[0] == "num":
            return num(t[1], t[2])
        if t[0] == "fn":
            if t[1] == "var":
                x = eat()
                if x is None or x[0] != "id" or eat() != ("op", ")"):
                    raise ParseError("bad var()")
                return {"t": "var", "name": x[1]}
            args = [expr()]
            while peek() == ("op", ","):
                eat()
                args.append(expr())
            if eat() != ("op", ")"):
                raise ParseError("missing )")
            return {"t": "fn", "f": t[1], "args": args}
        if t == ("op", "("):
            e = expr()
            if eat() != ("op", ")"):
                raise ParseError("missing )")
            return e
        if t == ("op", "-"):
            a = atom()
            return {"t": "op", "op": "*", "l": {"t": "num", "n": -1, "d": 1, "u": ""}, "r": a}
        raise ParseError("unexpected %r" % (t,))

    def term():
        l = atom()
        while peek() in (("op", "*"), ("op", "/")):
            o = eat()[1]
            l = {"t": "op", "op": o, "l": l, "r": atom()}
        return l

    def expr():
        l = term()
        while peek() in (("op", "+"), ("op", "-")):
            o = eat()[1]
            l = {"t": "op", "op": o, "l": l, "r": term()}
        return l
    e = expr()
    if pos[0] != len(toks):
        raise ParseError("trailing tokens")
    return e


def q(xs):
    return ", ".join('"%s"' % x for x in xs)


def run(ctx):
    ctx.rule = ("calculation expressions grown operation by operation by MC_Calc (leaves: unitless, px, in, em, %, vw, deg, s, ms, var(); "
                "+ - * /; calc/min/max/clamp incl. three arguments) to depth 2 (thorough 3); class reject / fold / calc from Calc.tla; the "
                "printed result is parsed back and TLC (Trace_Calc) evaluates source and output under three unit environments; "
                "non-trivial = distinct expression")
    if ctx.tier == "quick":
        plans = [(2, ["2", "3px", "4em", "5%", "7deg"], ["+", "-", "*", "/"], ["calc", "min", "max", "clamp", "min3"]),
                 (2, ["2", "10px", "var(--x)", "var(--c)"], ["+", "-", "*", "/"], ["min", "calc"]),
                 (1, ["2", "3px", "4em", "5%", "6vw", "7deg", "8s", "1in", "-3", "500ms", "var(--x)", "var(--c)", "1"], ["+", "-", "*", "/"], ["calc", "min", "max", "clamp", "min3"])]
    else:
        plans = [(2, ["2", "3px", "4em", "5%", "6vw", "7deg", "8s", "1in", "-3", "var(--x)"], ["+", "-", "*", "/"], ["calc", "min", "max", "clamp", "min3"]),
                 (3, ["2", "3px", "4em", "7deg"], ["+", "-", "*", "/"], ["min", "clamp"]),
                 (3, ["2", "10px", "var(--x)", "var(--c)"], ["-", "*", "/"], ["min"])]
    cases = []
    for md, leafs, ops, fns in plans:
        r = C.tlc("MC_Calc", cfg_text=CFG % (md, q(leafs), q(ops), q(fns)), workers=8, timeout=3000)
        C.tlc_must_pass(r, "MC_Calc")
        ctx.add_tlc(r)
        cases.extend(r.cases)
    seen = set()
    uniq = []
    for c in cases:
        if c["src"] not in seen:
            seen.add(c["src"])
            uniq.append(c)
    cases = uniq
    jobs = [{"id": i, "src": "a { r: %s; }\n" % c["src"], "style": "compressed" if i % 2 else "expanded"} for i, c in enumerate(cases)]
    res = C.run_cases(jobs, PID)
    tpath = os.path.join(C.WORK, "trace-C16-%d.ndjson" % os.getpid())
    n = 0
    with open(tpath, "w") as f:
        for c, j, x in zip(cases, jobs, res):
            ctx.count(c["src"])
            oc = x.get("outcome")
            if oc not in ("css", "error"):
                ctx.violation("%s: simplification crashed (%s)" % (c["src"], x.get("panic") or oc), {"src": j["src"], "outcome": oc, "panic": x.get("panic")})
                continue
            rec = {"id": j["id"], "ast": c["ast"], "class": c["class"], "outcome": "error", "out": {"t": "num", "n": 0, "d": 1, "u": ""}}
            if oc == "css":
                val = None
                for _, sel, ds in cssread.flatten(cssread.parse(x["css"])):
                    if ds:
                        val = dict(ds).get("r")
                try:
                    rec["out"] = parse_calc(val or "")
                    rec["outcome"] = "value"
                except ParseError as e:
                    if val and ("Infinity" in val or "NaN" in val):
                        rec["outcome"] = "special"
                        f.write(json.dumps(rec) + "\n")
                        n += 1
                        continue
                    ctx.violation("%s: printed value %r is not a calculation the checker can read (%s)" % (c["src"], val, e), {"src": j["src"], "css": x["css"]})
                    continue
            f.write(json.dumps(rec) + "\n")
            n += 1
    tr = C.tlc("Trace_Calc", workers=1, dfs=True, env={"TRACE": tpath}, timeout=3000, heap="8g")
    ctx.add_tlc(tr)
    if tr.rc != 0 and not any(k == "REJECT" for k, _ in tr.prints):
        C.log(tr.out[-3000:])
        raise C.ToolError("Trace_Calc failed")
    ctx.validated += n
    for kind, v in tr.prints:
        if kind == "REJECT":
            i = v["id"]
            c, x = cases[i], res[i]
            ctx.violation("%s (class %s): grass gave %s" % (c["src"], c["class"], (x.get("css") or (x.get("err") or {}).get("message") or "").strip()),
                          {"src": jobs[i]["src"], "class": c["class"], "expected_value": c["value"], "observed": {k: x.get(k) for k in ("outcome", "css", "err")},
                           "spec": "Trace_Calc.Allowed"})
    for c, x in list(zip(cases, res))[50:53]:
        ctx.sample({"src": c["src"], "class": c["class"], "css": x.get("css")})
    os.remove(tpath)
    ctx.assumptions += ["the printed calculation is parsed by the checker (vlib/p16.parse_calc); decimals with more than 6 fractional digits are read as the nearest fraction with denominator <= 10000",
                        "three unit environments (em, %, vw in px; values for var(--x), var(--c))"]
