# C09: equality is an equivalence consistent with !=, map keys and index(); maps keep insertion order.
from . import common as C
from . import cssread

PID = "C09"

MAPS_CFG = """SPECIFICATION Spec
CONSTANTS MaxOps = %d
INVARIANTS KeysUnique OrderKept Emit
CHECK_DEADLOCK FALSE
"""


def decls(x):
    out = {}
    each = []
    for _, sel, ds in cssread.flatten(cssread.parse(x["css"])):
        if ds:
            if sel == "e":
                each.extend(v for k, v in ds if k == "k")
            else:
                out.update(dict(ds))
    return out, each


def run(ctx):
    ctx.rule = ("equality: every ordered pair of 45 representative values (numbers equal after conversion or within tolerance, "
                "quoted/unquoted strings, colour spellings, lists by separator/brackets, maps, null/booleans, zeros) through == != "
                "index map-has-key map-get map-remove map-merge and literal-map duplicate rejection; maps: every sequence of <= MaxOps "
                "operations (set by two spellings of equal keys, remove, merge, nested set, deep-merge) of MC_Maps, whose model-level "
                "invariants (unique keys, order kept by every step) TLC checks; non-trivial = distinct pair / operation sequence")
    # ---- pairs
    r = C.tlc("MC_Equality", workers=4, timeout=1200)
    C.tlc_must_pass(r, "MC_Equality")
    ctx.add_tlc(r)
    pairs = r.cases
    jobs = []
    for c in pairs:
        a, b = c["a"], c["b"]
        jobs.append({"id": len(jobs), "src": "@use \"sass:map\";\n$a: %s;\n$b: %s;\nx { eq: $a == $b; ne: $a != $b; idx: inspect(index(($a,), $b)); "
                                            "has: map-has-key(($a: 1), $b); get: inspect(map-get(($a: v), $b)); rem: length(map-remove(($a: 1), $b)); "
                                            "mrg: length(map-merge(($a: 1), ($b: 2))); val: inspect(map-get(map-merge(($a: 1), ($b: 2)), $a)); "
                                            "set: length(map.set(($a: 1), $b, 2)); midx: inspect(index((k: 1), $b)); }\n" % (a, b)})
        jobs.append({"id": len(jobs), "src": "$m: (%s: 1, %s: 2);\nx { y: length($m); }\n" % (a, b)})
    res = C.run_cases(jobs, PID)
    for k, c in enumerate(pairs):
        ctx.count(["pair", c["a"], c["b"]])
        ctx.validated += 1
        x, y = res[2 * k], res[2 * k + 1]
        eq = c["eq"]
        want = {"eq": "true" if eq else "false", "ne": "false" if eq else "true", "idx": "1" if eq else "null", "has": "true" if eq else "false",
                "get": "v" if eq else "null", "rem": "0" if eq else "1", "mrg": "1" if eq else "2", "val": "2" if eq else "1", "set": "1" if eq else "2",
                # index() on a map looks at its entries as unbracketed space-separated (key value) lists
                "midx": "1" if c.get("bclass") == "lk1-space" else "null"}
        why = None
        if x.get("outcome") != "css":
            why = "probe did not compile: %s" % ((x.get("err") or {}).get("message") or x.get("outcome"))
        else:
            got, _ = decls(x)
            bad = {k2: (want[k2], got.get(k2)) for k2 in want if got.get(k2) != want[k2]}
            if bad:
                why = "operations disagree with ==: " + ", ".join("%s expected %s got %s" % (k2, w, g) for k2, (w, g) in sorted(bad.items()))
        if why is None:
            if eq and y.get("outcome") != "error":
                why = "a map literal with two equal keys was accepted"
            elif not eq and y.get("outcome") != "css":
                why = "a map literal with two different keys was rejected: %s" % (y.get("err") or {}).get("message")
        if why:
            ctx.violation("%s vs %s (spec: %s): %s" % (c["a"], c["b"], "equal" if eq else "different", why),
                          {"src": jobs[2 * k]["src"], "a": c["a"], "b": c["b"], "equal_in_spec": eq, "observed": x.get("css"), "literal": y.get("outcome"),
                           "spec": "MapMachine.SassEq"})
    # ---- map behaviours
    r = C.tlc("MC_Maps", cfg_text=MAPS_CFG % (3 if ctx.tier == "quick" else 4), workers=8, timeout=3000)
    C.tlc_must_pass(r, "MC_Maps")
    ctx.add_tlc(r)
    cases = r.cases
    if ctx.tier == "thorough" and len(cases) > 300000:
        import random
        cases = random.Random(ctx.seed).sample(cases, 300000)
    jobs = [{"id": i, "src": "@use \"sass:map\";\n$m: ();\n" + "\n".join(c["lines"]) +
                            "\nx { i: inspect($m); k: inspect(map-keys($m)); v: inspect(map-values($m)); }\n@each $k, $v in $m { e { k: inspect($k); } }\n"}
            for i, c in enumerate(cases)]
    res = C.run_cases(jobs, PID + "-maps")
    for c, j, x in zip(cases, jobs, res):
        ctx.count(["ops", c["lines"]])
        ctx.validated += 1
        if x.get("outcome") != "css":
            ctx.violation("map program did not compile: %s" % ((x.get("err") or {}).get("message") or x.get("outcome")), {"src": j["src"]})
            continue
        got, each = decls(x)
        want = {"i": c["inspect"], "k": c["keys"], "v": c["values"]}
        bad = {k2: (want[k2], got.get(k2)) for k2 in want if (got.get(k2) or "").replace(" ", "") != want[k2].replace(" ", "")}
        if bad or each != c["each"]:
            ctx.violation("map state differs from MapMachine: %s%s" % (", ".join("%s expected %s got %s" % (k2, w, g) for k2, (w, g) in sorted(bad.items())),
                                                                        "" if each == c["each"] else " @each order %s expected %s" % (each, c["each"])),
                          {"src": j["src"], "expected": want, "each_expected": c["each"], "observed": got, "each_observed": each, "spec": "MC_Maps"})
    ctx.sample({"pair": pairs[100], "probe": jobs[0]["src"] if jobs else ""})
    ctx.sample({"map_ops": cases[-1]})
    ctx.assumptions += ["the empty list vs the empty map is not in the universe (Sass calls them equal, the statement only demands the laws)",
                        "inspect() texts are compared ignoring spaces"]
