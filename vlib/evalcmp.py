# Comparison of grass's observable behaviour with an expectation computed by Eval.tla.
from . import cssread


def decls_by_selector(css):
    flat = cssread.flatten(cssread.parse(css))
    by = {}
    order = []
    for ctx, sel, decls in flat:
        if decls is None:
            continue
        key = " | ".join(ctx + (sel,))
        if key not in by:
            by[key] = []
            order.append(key)
        by[key].extend(decls)
    return by


def expected_by_selector(out):
    by = {}
    for o in out:
        if o[0] == "decl":
            by.setdefault(o[1], []).append((o[2], o[3]))
    return by


def compare(case, res, syntax="scss"):
    """returns None if the observation is what the specification expects, else a reason"""
    k = case["k"]
    if k == "unknown":
        return None
    oc = res.get("outcome")
    if oc not in ("css", "error"):
        return "outcome %s" % oc
    if k == "error":
        return None if oc == "error" else "specification expects an error, grass produced CSS"
    if oc != "css":
        return "specification expects CSS, grass reported: %s" % (res.get("err", {}).get("message"))
    try:
        got = decls_by_selector(res["css"])
    except cssread.CssSyntaxError as e:
        return "output not well-formed: %s" % e
    exp = expected_by_selector(case["out"])
    if {k: [tuple(x) for x in v] for k, v in got.items() if v} != {k: [tuple(x) for x in v] for k, v in exp.items()}:
        return "declarations differ: expected %r, got %r" % (exp, got)
    li = 2 if syntax == "scss" else 3
    explog = [(o[0], o[1], o[li]) for o in case["out"] if o[0] in ("debug", "warn")]
    gotlog = [(l["kind"], l["msg"], l["line"]) for l in res.get("log", [])]
    if not deliver_ok(explog, gotlog):
        return "logger deliveries differ: expected %r, got %r" % (explog, gotlog)
    return None


def deliver_ok(exp, obs):
    """Python mirror of Diag.Deliver: every expected delivery arrives in order, except that a @warn may be
    omitted when the same directive already delivered the same message."""
    j = 0
    seen = set()
    for e in exp:
        if j < len(obs) and tuple(obs[j]) == tuple(e):
            j += 1
        elif e[0] == "warn" and tuple(e) in seen:
            pass
        else:
            return False
        seen.add(tuple(e))
    return j == len(obs)
