# C18: the three input syntaxes and insignificant source variations agree.
import json
import os
import random
import re

from . import common as C
from . import sources

PID = "C18"
NL = {"lf": "\n", "crlf": "\r\n", "cr": "\r", "ff": "\f"}


def swap_names(lines, lead=False):
    """user-chosen names get a '-'/'_' pair: odd occurrences '-', even occurrences '_' (they must mean the same);
    lead: the pair is the first character of variable names ($-x / $_x)"""
    count = {}
    if lead:
        def rep1(m):
            name = m.group(0)
            k = count.get(name, 0)
            count[name] = k + 1
            return "$" + ("-" if k % 2 == 0 else "_") + name[1:]
        return [re.sub(r"\$[a-z]\b(?![-\w])", rep1, ln) for ln in lines]

    def rep(m):
        name = m.group(0)
        k = count.get(name, 0)
        count[name] = k + 1
        return name + ("-v" if k % 2 == 0 else "_v")
    out = []
    for ln in lines:
        ln = re.sub(r"\$[a-z]\b(?![-\w])", rep, ln)
        ln = re.sub(r"(?<=@mixin )[mn]\b|(?<=@include )[mn]\b|(?<=@function )[fg]\b|\b[fg](?=\()", rep, ln)
        out.append(ln)
    return out


def apply(lines, d, syntax):
    lines = list(lines)
    if d["swap"] in (True, "mid"):
        lines = swap_names(lines)
    elif d["swap"] == "lead":
        lines = swap_names(lines, lead=True)
    if d["pad"] == "spaces":
        lines = [ln + (" \t" if i % 2 else "  ") for i, ln in enumerate(lines)]
    elif d["pad"] in ("blank", "wsblank", "comment"):
        out = []
        for i, ln in enumerate(lines):
            nxt = lines[i + 1] if i + 1 < len(lines) else ""
            # a silent comment is placed at the indentation of the line that FOLLOWS it (in the indented syntax deeper
            # lines after a comment are part of the comment), never in front of @else / a closing brace / the end
            ind = len(nxt) - len(nxt.lstrip(" "))
            out.append(ln)
            if d["pad"] == "blank":
                out.append("")
            elif d["pad"] == "wsblank":
                out.append("  \t")
            elif nxt.strip() and not nxt.strip().startswith("@else") and nxt.strip() != "}":
                out.append(" " * ind + "// pad")
        lines = out
    if d["prefix"] == "charset":
        lines = ['@charset "UTF-8"' + (";" if syntax == "scss" else "")] + lines
    if d["nl"] == "mixed":
        rot = ["\n", "\r\n", "\r", "\f"]
        text = "".join(ln + rot[i % 4] for i, ln in enumerate(lines))
    else:
        text = "".join(ln + NL[d["nl"]] for ln in lines)
    if d["prefix"] == "bom":
        text = "﻿" + text
    return text


def obs(x):
    oc = x.get("outcome")
    return {"outcome": oc if oc in ("css", "error") else "crash", "css": x.get("css") or "",
            "msgs": [[m["kind"], m["msg"]] for m in x.get("log", [])]}


def run(ctx):
    rnd = random.Random(ctx.seed)
    ctx.rule = ("programs of MC_Eval / MC_Nesting printed by the two pretty-printers (SCSS, indented) and rewritten by the variation "
                "descriptors enumerated by MC_Variation (5 newline styles x 5 paddings x 3 prefixes x name swap); each program gets its "
                "two renderings plus k descriptors per syntax; the flat CSS each produces is re-read as CSS and as SCSS; one event per "
                "program judged by Trace_Agree; non-trivial = distinct program with CSS or log output")
    thorough = ctx.tier == "thorough"
    r = C.tlc("MC_Variation", workers=2, timeout=300)
    C.tlc_must_pass(r, "MC_Variation")
    ctx.add_tlc(r)
    descs = r.cases
    progs = sources.eval_programs(ctx, [("scope", 4, 2), ("control", 4, 2), ("args", 4, 2), ("ops", 2, 1)] if not thorough
                                  else [("scope", 5, 2), ("control", 5, 2), ("args", 5, 2), ("ops", 2, 1), ("diag", 4, 2)],
                                  sim=300 if not thorough else 3000)
    if not thorough and len(progs) > 6000:
        progs = rnd.sample(progs, 6000)
    k = 3 if not thorough else 8
    jobs = []
    plan = []
    for pi, c in enumerate(progs):
        vs = [("scss", None), ("sass", None)]
        for _ in range(k):
            vs.append(("scss", rnd.choice(descs)))
            vs.append(("sass", rnd.choice(descs)))
        ids = []
        for syn, d in vs:
            text = apply(c[syn], d, syn) if d else "\n".join(c[syn]) + "\n"
            ids.append(len(jobs))
            jobs.append({"id": len(jobs), "src": text, "syntax": syn})
        # plain CSS mode on the SCSS rendering
        ids.append(len(jobs))
        jobs.append({"id": len(jobs), "src": "\n".join(c["scss"]) + "\n", "syntax": "css"})
        # ... and the same behind a statement at-rule
        ids.append(len(jobs))
        jobs.append({"id": len(jobs), "src": "@layer a, b;\n" + "\n".join(c["scss"]) + "\n", "syntax": "css"})
        plan.append((c, vs, ids))
    res = C.run_cases(jobs, PID)
    tpath = os.path.join(C.WORK, "trace-C18-%d.ndjson" % os.getpid())
    with open(tpath, "w") as f:
        for pi, (c, vs, ids) in enumerate(plan):
            variants = [obs(res[i]) for i in ids[:-2]]
            ctx.count(c["scss"], nontrivial=bool(variants[0]["css"].strip() or variants[0]["msgs"]))
            f.write(json.dumps({"id": pi, "variants": variants, "ascss": obs(res[ids[-2]]), "ascss2": obs(res[ids[-1]]), "sassonly": bool(c.get("sassonly")),
                                "plain": not c.get("sassonly") and not c.get("nested")}) + "\n")
    tr = C.tlc("Trace_Agree", workers=1, dfs=True, env={"TRACE": tpath}, timeout=3000, heap="12g")
    ctx.add_tlc(tr)
    if tr.rc != 0 and not any(kk == "REJECT" for kk, _ in tr.prints):
        C.log(tr.out[-3000:])
        raise C.ToolError("Trace_Agree failed")
    ctx.validated += len(plan)
    for kind, v in tr.prints:
        if kind == "REJECT":
            c, vs, ids = plan[v["id"]]
            bad = v["first"] - 1 if v["first"] else None
            rp = {"scss": "\n".join(c["scss"]) + "\n", "sass": "\n".join(c["sass"]) + "\n", "agree": v["agree"], "cssmode": v["cssmode"],
                  "sassonly": c.get("sassonly"), "first_obs": obs(res[ids[0]]), "spec": "Trace_Agree.Allowed"}
            if bad is not None:
                rp.update({"variant": {"syntax": vs[bad][0], "descriptor": vs[bad][1]}, "job": jobs[ids[bad]], "variant_obs": obs(res[ids[bad]]),
                           "variant_err": (res[ids[bad]].get("err") or {}).get("message")})
            else:
                rp.update({"css_mode_obs": obs(res[ids[-2]]), "css_mode_after_statement_at_rule": obs(res[ids[-1]])})
            ctx.violation("variants of one program disagree" if not v["agree"] else "plain-CSS mode behaviour", rp)
    c, vs, ids = plan[len(plan) // 2]
    ctx.sample({"scss": c["scss"], "sass": c["sass"], "descriptor": vs[2][1], "variant_text": jobs[ids[2]]["src"]})
    os.remove(tpath)
    ctx.assumptions += ["padding comments are silent comments on their own line at the indentation of the preceding line (not inserted after @else or a closing brace)",
                        "name swaps apply to the generator's own variable/mixin/function names only"]
