# C19: diagnostics are located, renderable and routed only through the Logger.
import json
import os
import random

from . import common as C
from . import p03

PID = "C19"


def record(i, job, r, expect="any", einfo=None, explog=None):
    err = r.get("err") or {}
    e = {k: err.get(k, 0) for k in ("bline", "bcol", "eline", "ecol", "nlines", "blen", "elen")}
    e["message"] = err.get("message", "")
    e["file"] = err.get("file", "")
    files = ["stdin"] + sorted((job.get("files") or {}).keys())
    return {
        "id": i,
        "outcome": r.get("outcome"),
        "ekind": err.get("kind", ""),
        "err": e,
        "rendered": r.get("rendered", ""),
        "rendered_ok": "rendered" in r and "render_panic" not in r and "kind_panic" not in r,
        "files": files,
        "einfo": einfo or [],
        "expect": expect,
        "haslog": explog is not None,
        "explog": explog or [],
        "log": [[x["kind"], x["msg"], x["line"], x["file"]] for x in r.get("log", [])],
        "quiet": bool(job.get("quiet")),
        "stdio": int(r.get("stdio_bytes", 0)),
    }


def failing_inputs(ctx, n_mut):
    """corpus error inputs plus near-miss mutations of corpus inputs (truncation, deletion, duplication)"""
    rnd = random.Random(ctx.seed)
    co = C.corpus()
    out = [c["input"] for c in co if c["kind"] == "error"]
    good = [c["input"] for c in co if c["kind"] == "test" and 0 < len(c["input"]) < 400]
    for _ in range(n_mut):
        s = rnd.choice(good)
        k = rnd.randrange(len(s))
        m = rnd.randrange(4)
        if m == 0:
            out.append(s[:k])
        elif m == 1:
            out.append(s[:k] + s[k + 1:])
        elif m == 2:
            out.append(s[:k] + s[k] + s[k:])
        else:
            out.append(s[:k] + rnd.choice("{}()[];:,\"'#$@&*/\\\n") + s[k:])
    return out


def run(ctx):
    ctx.rule = ("(A) programs of MC_Eval profile 'diag' (@debug/@warn/@error in loops, mixins, functions, imported file) "
                "x quiet x unicode with expected deliveries/error from Eval.tla; (B) failing inputs (corpus error cases and "
                "seeded near-miss mutations of corpus inputs) x unicode; every compilation is one event judged by "
                "Trace_Diag; non-trivial = distinct (input, configuration) that produced an error or a logger delivery")
    ml = 4 if ctx.tier == "quick" else 5
    r = C.tlc("MC_Eval", cfg_text=p03.CFG % (ml, 2, "diag", "TRUE", "TRUE"), workers=10, timeout=3000, metaname="diag")
    C.tlc_must_pass(r, "MC_Eval/diag")
    ctx.add_tlc(r)
    cases = [c for c in r.cases if c["k"] != "unknown"]
    ctx.extra["diag_programs_generated"] = len(cases)
    cap = 60000
    if len(cases) > cap:          # thorough tier: the deeper profile yields millions of programs; a seeded sample of it is compiled
        import random
        cases = random.Random(ctx.seed).sample(cases, cap)
    jobs = []
    meta = []
    PAD = 12
    for i, c in enumerate(cases):
        combos = [(False, True), (True, True), (False, False), (True, False)]
        sel = combos if (i % 16 == 0 or ctx.tier == "thorough") else [combos[i % 4]] if i % 4 != 1 else [combos[0]]
        for quiet, uni in sel:
            jobs.append({"id": len(jobs), "src": "\n".join(c["scss"]) + "\n", "quiet": quiet, "unicode": uni,
                         "files": ({"_lib.scss": "\n".join(c["lib"]) + "\n"} if c["lib"] else {})})
            meta.append(("gen", c, 0))
        if i % 6 == 0 or ctx.tier == "thorough":
            # insignificant variation: CRLF line endings and PAD leading comment lines in both files
            pre = "// pad\r\n" * PAD
            jobs.append({"id": len(jobs), "src": pre + "\r\n".join(c["scss"]) + "\r\n",
                         "files": ({"_lib.scss": pre + "\r\n".join(c["lib"]) + "\r\n"} if c["lib"] else {})})
            meta.append(("gen", c, PAD))
    nmut = 3000 if ctx.tier == "quick" else 40000
    for s in failing_inputs(ctx, nmut):
        for uni in (True, False):
            jobs.append({"id": len(jobs), "src": s, "unicode": uni})
            meta.append(("fail", None, 0))
    res = C.run_cases(jobs, PID)
    tpath = os.path.join(C.WORK, "trace-C19-%d.ndjson" % os.getpid())
    n = 0
    with open(tpath, "w") as f:
        for i, (j, (kind, c, shift), x) in enumerate(zip(jobs, meta, res)):
            if x.get("outcome") not in ("css", "error"):
                if kind == "gen":
                    ctx.violation("compilation ended with %s" % x.get("outcome"), {"job": j, "observed": x})
                continue      # crashes on arbitrary inputs are C01's business
            if kind == "gen":
                explog = [[o[0], o[1], o[2] + shift, o[4]] for o in c["log"] if o[0] in ("debug", "warn")]
                einfo = [c["einfo"][0], c["einfo"][1] + shift, c["einfo"][2]] if c["einfo"] else []
                # under quiet grass does not evaluate @debug/@warn operands at all, so an error inside one may
                # legitimately not happen; C19 only demands silence there
                # ... and with the operand skipped a LATER error of the program may be the one reported: no expectation on which
                rec = record(i, j, x, expect=("any" if j.get("quiet") else c["k"]), einfo=([] if j.get("quiet") else einfo), explog=explog)
            else:
                rec = record(i, j, x)
            if rec["outcome"] == "error" or rec["log"]:
                ctx.count([j["src"], j.get("quiet"), j.get("unicode")])
            else:
                ctx.count([j["src"], j.get("quiet"), j.get("unicode")], nontrivial=False)
            f.write(json.dumps(rec) + "\n")
            n += 1
    tr = C.tlc("Trace_Diag", workers=1, dfs=True, env={"TRACE": tpath}, timeout=3000, heap="8g")
    ctx.add_tlc(tr)
    if tr.rc != 0 and not any(k == "REJECT" for k, _ in tr.prints):
        C.log(tr.out[-3000:])
        raise C.ToolError("Trace_Diag failed")
    ctx.validated += n
    for kind, v in tr.prints:
        if kind == "REJECT":
            i = v["id"]
            ctx.violation("diagnostic not allowed by Diag: %s" % json.dumps(v),
                          {"job": jobs[i], "expected": (meta[i][1] or {}).get("log") if meta[i][1] else None,
                           "einfo": (meta[i][1] or {}).get("einfo") if meta[i][1] else None,
                           "observed": {k: res[i].get(k) for k in ("outcome", "err", "rendered", "log", "stdio")},
                           "judgement": v, "spec": "Trace_Diag.Allowed"})
    for j, x in list(zip(jobs, res))[:2] + list(zip(jobs, res))[-2:]:
        ctx.sample({"src": j["src"], "quiet": j.get("quiet"), "unicode": j.get("unicode"), "outcome": x.get("outcome"),
                    "err": x.get("err"), "log": x.get("log")})
    os.remove(tpath)
    ctx.assumptions += [
        "an error's file must be the entry ('stdin') or a file of the virtual file system; line/column bounds use the line lengths of that file as reported by the error's own source map",
        "fd 1/2 are observed by redirecting them to a file inside the worker and measuring its growth per compilation",
    ]
