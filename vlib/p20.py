# C20: the command-line tool mirrors the library and signals failure correctly.
import concurrent.futures
import json
import os
import shutil
import subprocess

from . import common as C

PID = "C20"

INPUTS = {
    "valid": ["a { b: c; d: 1 + 2; }\n", "@mixin m { x: y; }\n.k { @include m; e: f g; }\n"],
    "warn": ["@warn \"careful\";\na { b: c; }\n", "@debug 1;\n@warn w2;\n.q { r: s; }\n"],
    "nonascii": ["a { content: \"café\"; }\n", ".ü { b: c; }\n"],
    "needslp": ["@import \"inlp\";\na { b: $fromlp; }\n", "@use \"inlp\";\na { b: inlp.$fromlp; }\n"],
    "parseerr": ["a { b: ; }\n", "a { b: c\n"],
    "evalerr": ["a { b: $undefined; }\n", "@error \"boöm\";\n"],
    "missing": ["unused"],
    "badout": ["a { b: c; }\n"],
}


STALE = "/* stale output of an earlier build */\n" * 120


def lps_of(n):
    return {0: [], 1: ["lp1"], 2: ["lp1", "lp2"], 3: ["lp2", "lp1"]}[n]


def run(ctx):
    ctx.rule = ("TLC runs the Cli machine for every flag vector (style x --no-charset x --quiet x --no-unicode x 0/1/2 "
                "--load-path x file/--stdin x stdout/output file) x 8 input classes and prints the expected terminal "
                "state; the real binary is run for each with 1-2 inputs per class; the library is called in-process with "
                "the same options as the CSS/error oracle; non-trivial = distinct (flags, class, input)")
    grass = C.build_cli()
    r = C.tlc("MC_Cli", workers=4, timeout=1200)
    C.tlc_must_pass(r, "MC_Cli")
    ctx.add_tlc(r)
    base = os.path.join(C.WORK, "c20-%d" % os.getpid())
    shutil.rmtree(base, ignore_errors=True)
    os.makedirs(os.path.join(base, "lp1"))
    os.makedirs(os.path.join(base, "lp2"))
    with open(os.path.join(base, "lp1", "_inlp.scss"), "w") as f:
        f.write("$fromlp: lp1;\n")
    with open(os.path.join(base, "lp2", "_inlp.scss"), "w") as f:
        f.write("$fromlp: lp2;\n")
    runs = []
    for c in r.cases:
        ins = INPUTS[c["class"]]
        if ctx.tier == "quick":
            ins = ins[:1] if (c["flags"]["lps"] >= 2 or c["flags"]["nounicode"]) else ins
        for k, text in enumerate(ins):
            runs.append((c, k, text))
    # input files
    names = {}
    for cl, ins in INPUTS.items():
        for k, text in enumerate(ins):
            n = "in-%s-%d.scss" % (cl, k)
            names[(cl, k)] = n
            if cl != "missing":
                with open(os.path.join(base, n), "w", encoding="utf-8") as f:
                    f.write(text)
    # library oracle: same options, same working directory, real file system
    jobs = []
    for i, (c, k, text) in enumerate(runs):
        fl = c["flags"]
        j = {"id": i, "fs": "std", "style": fl["style"], "charset": not fl["nocharset"], "quiet": fl["quiet"],
             "unicode": not fl["nounicode"], "load_paths": lps_of(fl["lps"])}
        if fl["stdin"]:
            j["src"] = text if c["class"] != "missing" else ""
        else:
            j["entry"] = names[(c["class"], k)]
        jobs.append(j)
    lib = C.run_cases(jobs, PID, cwd=base)

    def one(i):
        c, k, text = runs[i]
        fl = c["flags"]
        args = [grass, "--style", fl["style"]]
        if fl["nocharset"]:
            args.append("--no-charset")
        if fl["quiet"]:
            args.append("--quiet")
        if fl["nounicode"]:
            args.append("--no-unicode")
        for lp in lps_of(fl["lps"]):
            args += ["--load-path", lp]
        outname = None
        if fl["tofile"]:
            outname = ("nodir-%d/out.css" % i) if c["class"] == "badout" else "out-%d.css" % i
        if outname and c["class"] != "badout" and i % 2 == 0:
            with open(os.path.join(base, outname), "w") as fh:      # an older, longer output file is already there
                fh.write(STALE)
        if fl["stdin"]:
            args.append("--stdin")
        else:
            args.append(names[(c["class"], k)])
        if outname:
            args.append(outname)
        try:
            p = subprocess.run(args, cwd=base, input=(text.encode() if fl["stdin"] else b""), stdout=subprocess.PIPE,
                               stderr=subprocess.PIPE, timeout=30)
            rc, so, se = p.returncode, p.stdout, p.stderr
        except subprocess.TimeoutExpired:
            rc, so, se = 124, b"", b"timeout"
        fstate, fbytes = "none", b""
        if outname and os.path.exists(os.path.join(base, outname)):
            fbytes = open(os.path.join(base, outname), "rb").read()
            os.remove(os.path.join(base, outname))
            fstate = "bytes"
        return rc, so, se, fstate, fbytes, args

    with concurrent.futures.ThreadPoolExecutor(max_workers=12) as ex:
        obs = list(ex.map(one, range(len(runs))))
    tpath = os.path.join(C.WORK, "trace-C20-%d.ndjson" % os.getpid())
    with open(tpath, "w") as f:
        for i, ((c, k, text), l, (rc, so, se, fstate, fbytes, args)) in enumerate(zip(runs, lib, obs)):
            ctx.count([c["flags"], c["class"], k])
            css = (l.get("css") or "").encode() if l.get("outcome") == "css" else None
            rendered = (l.get("rendered") or "") if l.get("outcome") == "error" else None

            def chan(b):
                if b == b"":
                    return "none"
                return "css" if css is not None and b == css else "other"
            outfile = "none" if fstate == "none" else ("empty" if fbytes == b"" else ("stale" if fbytes == STALE.encode() else chan(fbytes)))
            stdout = chan(so)
            if css == b"" and c["stdout"] == "css":
                stdout = "css" if so == b"" else "other"       # an empty stylesheet
            if css == b"" and c["outfile"] == "css":
                outfile = "css" if fbytes == b"" and fstate != "none" else outfile
            set_ = se.decode("utf-8", "replace")
            rec = {"id": i, "expect": c, "exit": rc, "stdout": stdout, "outfile": outfile,
                   "errmatches": bool(rendered is not None and set_.endswith(rendered + "\n")) or
                                 (c["class"] == "missing" and rc != 0 and set_.startswith("Error: ")),
                   "stderrnonempty": set_ != "", "haswarning": ("Warning: " in set_ or "DEBUG: " in set_),
                   "warninginoutput": (b"Warning" in so or b"DEBUG" in so or b"Warning" in fbytes or b"careful" in so + fbytes)}
            f.write(json.dumps(rec) + "\n")
    tr = C.tlc("Trace_Cli", workers=1, dfs=True, env={"TRACE": tpath}, timeout=1200)
    ctx.add_tlc(tr)
    if tr.rc != 0 and not any(k == "REJECT" for k, _ in tr.prints):
        C.log(tr.out[-3000:])
        raise C.ToolError("Trace_Cli failed")
    ctx.validated += len(runs)
    for kind, v in tr.prints:
        if kind == "REJECT":
            i = v["id"]
            c, k, text = runs[i]
            rc, so, se, fstate, fbytes, args = obs[i]
            ctx.violation("process behaviour not allowed by Cli for class %s" % c["class"],
                          {"argv": args[1:], "stdin_flag": c["flags"]["stdin"], "tofile": c["flags"]["tofile"], "class": c["class"],
                           "input": text, "expected": {k2: c[k2] for k2 in ("exit", "stdout", "outfile", "stderr")},
                           "observed": {"exit": rc, "stdout": so.decode("utf-8", "replace")[:400], "stderr": se.decode("utf-8", "replace")[:600],
                                        "outfile": fstate, "outfile_bytes": fbytes.decode("utf-8", "replace")[:400]},
                           "library": {k2: lib[i].get(k2) for k2 in ("outcome", "css", "rendered")}, "spec": "Trace_Cli.Allowed"})
    ctx.sample({"argv": obs[0][5][1:], "class": runs[0][0]["class"], "expected": {k2: runs[0][0][k2] for k2 in ("exit", "stdout", "outfile", "stderr")}})
    os.remove(tpath)
    shutil.rmtree(base, ignore_errors=True)
    ctx.assumptions += ["the binary is built from /repo's working tree into /verif/harness/target-cli",
                        "a failed run may leave an empty (truncated) output file; it may never contain CSS"]
