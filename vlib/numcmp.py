# Comparing the numbers grass prints with exact expectations (rationals, optionally times a power of pi).
import math
import re
from fractions import Fraction

NUMRE = re.compile(r"^(-?(?:\d+\.?\d*|\.\d+)(?:e[+-]?\d+)?)([a-zA-Z%]*)$")


def parse_num(text):
    m = NUMRE.match(text.strip())
    if not m:
        return None
    return Fraction(m.group(1)), m.group(2)


def close(got, exp_float, digits=10):
    """got: Fraction printed with <= 10 fractional digits; exp: the exact value as float/Fraction"""
    e = float(exp_float)
    g = float(got)
    tol = max(1.5 * 10 ** (-digits), abs(e) * 1e-9)
    return abs(g - e) <= tol
