# C14: list, map and string built-ins implement their documented semantics.
from . import common as C
from . import cssread

PID = "C14"

LISTS_CFG = """SPECIFICATION Spec
CONSTANTS
  MaxOps = %d
  UseModule = %s
INVARIANTS LawLen Emit
CHECK_DEADLOCK FALSE
"""
STR_CFG = """SPECIFICATION Spec
CONSTANTS
  NAtoms = %d
  MaxLen = %d
  Range_ = %d
INVARIANTS Laws Emit
CHECK_DEADLOCK FALSE
"""
# code-point labels -> characters: ASCII, two-byte, astral (4 bytes in UTF-8, 2 UTF-16 units), combining mark, more ASCII, insert marker
CP = {1: "a", 2: "é", 3: "👭", 4: "́", 5: "b", 6: "c", 9: "Z"}

# nested-key map functions and argument validation: (expression, expected inspect text or 'error')
TABLE = [
    ("map.get((a: (b: (c: 1))), a, b, c)", "1"), ("map.get((a: (b: 1)), a, x)", "null"), ("map.get((a: 1), a, b)", "null"),
    ("map.has-key((a: (b: 1)), a, b)", "true"), ("map.has-key((a: (b: 1)), a, c)", "false"), ("map.has-key((a: 1), a, b)", "false"),
    ("map.set((a: (b: 1)), a, b, 2)", "(a: (b: 2))"), ("map.set((a: (b: 1)), a, c, 2)", "(a: (b: 1, c: 2))"), ("map.set((a: 1), a, b, 2)", "(a: (b: 2))"),
    ("map.set((a: 1), x, y, 2)", "(a: 1, x: (y: 2))"), ("map.merge((a: (b: 1)), a, (c: 2))", "(a: (b: 1, c: 2))"),
    ("map.deep-remove((a: (b: 1, c: 2)), a, b)", "(a: (c: 2))"),
    # a key path that leaves the existing maps: everything after the first missing (or non-map) key starts from an empty map
    ("map.set((a: (b: 1)), x, a, c, 2)", "(a: (b: 1), x: (a: (c: 2)))"), ("map.merge((a: (b: 1)), x, a, (c: 2))", "(a: (b: 1), x: (a: (c: 2)))"),
    ("map.set((a: (b: 1), c: 5), c, a, d, 2)", "(a: (b: 1), c: (a: (d: 2)))"), ("map.get(map.set((a: (b: 1)), x, a, c, 2), x, a, b)", "null"),
    ("map.set((a: (b: (c: 1))), a, x, b, 2)", "(a: (b: (c: 1), x: (b: 2)))"), ("map.merge((a: (b: (c: 1))), a, x, (b: 2))", "(a: (b: (c: 1), x: (b: 2)))"),
    # left open: map.deep-remove with a missing first key (grass adds "x: null", mirroring the reference implementation's code)
    ("map.deep-merge((a: (b: 1, c: 2), d: 3), (a: (c: 9, e: 4)))", "(a: (b: 1, c: 9, e: 4), d: 3)"),
    ("map.keys((a: 1, b: 2))", "a, b"), ("map.values((a: 1, b: 2))", "1, 2"), ("map-remove((a: 1, b: 2, c: 3), a, c)", "(b: 2)"),
    ("map-get((a: 1), b)", "null"), ("map-keys(())", "()"), ("map-merge((), ())", "()"), ("map-get(1, a)", "error"), ("map-merge((a: 1), 2)", "error"),
    ("nth((a b c), 1.5)", "error"), ("nth((a b c), 0)", "error"), ("nth((a b c), 4)", "error"), ("nth((a b c), -4)", "error"), ("nth((), 1)", "error"),
    ("set-nth((a b c), 4, x)", "error"), ("length(a)", "1"), ("length(())", "0"), ("length((a: 1, b: 2))", "2"), ("nth((a: 1, b: 2), 2)", "b 2"),
    ("join(a, b, $separator: foo)", "error"), ("append(a, b, $separator: foo)", "error"), ("list-separator((a: 1))", "comma"),
    ("list-separator(())", "space"), ("is-bracketed(a)", "false"), ("zip(a b, c d)", "a c, b d"), ("zip(a b c, d e)", "a d, b e"),
    ("index(a b c, d)", "null"), ("index((a: 1, b: 2), b 2)", "2"), ("str-length(1)", "error"), ("str-slice(abc, a)", "error"), ("str-insert(abc, X, 1.5)", "error"),
    ("str-index(abc, 1)", "error"), ("quote(a)", "\"a\""), ("unquote(\"a\")", "a"), ("to-upper-case(\"aébc\")", "\"AéBC\""), ("to-lower-case(ABÉ)", "abÉ"),
    ("str-length(\"\")", "0"), ("str-slice(\"abc\", 2)", "\"bc\""), ("str-slice(abc, 2, 2)", "b"), ("str-index(\"abc\", \"\")", "1"),
    ("unquote(a)", "a"), ("quote(\"a\")", "\"a\""), ("str-insert(\"abc\", \"X\", 2)", "\"aXbc\""), ("length(1px)", "1"), ("map.get((a: 1))", "error"),
    ("string.split(abc, b)", "[a, c]"), ("string.split(\"a b\", \" \", 0)", "error"), ("string.split(\"a b\", \" \", 1.5)", "error"),
    ("string.split(\"a b\", 1)", "error"), ("string.split(\"\", \"\")", "[]"), ("string.split(ab, \"\")", "[a, b]"),
    ("append((a, b), c)", "a, b, c"), ("append(a b, c, comma)", "a, b, c"), ("join((a, b), (c d))", "a, b, c, d"), ("join((), (), comma)", "()"),
]
ALIAS = {"map.get(": "map-get(", "map.has-key(": "map-has-key(", "map.merge(": "map-merge(", "map.keys(": "map-keys(", "map.values(": "map-values("}


def txt(seq):
    return "".join(CP[i] for i in seq)


def decls(x):
    out = {}
    for _, sel, ds in cssread.flatten(cssread.parse(x["css"])):
        if ds:
            out.update(dict(ds))
    return out


def run(ctx):
    ctx.rule = ("lists: every chain of <= MaxOps list operations (append/join with every separator and bracket option, left join, set-nth) "
                "from 10 starting lists, observed through inspect/length/list-separator/is-bracketed/nth/index, global and sass:list "
                "spellings; strings: every string over code-point labels (ASCII, 2-byte, astral, combining) up to MaxLen x "
                "str-length/str-slice/str-index/str-insert with indices -R..R, global and sass:string spellings; a table of nested-key "
                "map functions and argument-validation errors; non-trivial = distinct call")
    thorough = ctx.tier == "thorough"
    # ---- lists
    for use_module in ("FALSE", "TRUE"):
        r = C.tlc("MC_Lists", cfg_text=LISTS_CFG % (2, use_module), workers=8, timeout=3000, metaname="lists" + use_module)
        C.tlc_must_pass(r, "MC_Lists")
        ctx.add_tlc(r)
        cases = r.cases
        pre = "@use \"sass:list\";\n"
        jobs = []
        fn = (lambda n: "list." + n) if use_module == "TRUE" else (lambda n: n)
        for i, c in enumerate(cases):
            e = c["expr"]
            jobs.append({"id": i, "src": pre + "$l: %s;\nx { i: inspect($l); n: %s($l); s: %s($l); b: %s($l); z: inspect(%s($l, z)); a: inspect(%s($l, a)); }\n"
                                         % (e, fn("length"), "list.separator" if use_module == "TRUE" else "list-separator", fn("is-bracketed"), fn("index"), fn("index"))})
        probes = [("nth1", 1), ("nthm1", -1), ("nth2", 2), ("nth0", 0), ("nth9", 9), ("nthm9", -9)]
        pjobs = []
        for i, c in enumerate(cases):
            if c["error"]:
                continue
            for name, n in probes:
                pjobs.append({"id": (i, name), "src": pre + "x { v: inspect(%s(%s, %d)); }\n" % (fn("nth"), c["expr"], n)})
        res = C.run_cases(jobs, PID + "-lists")
        pres = C.run_cases([{"id": k, "src": j["src"]} for k, j in enumerate(pjobs)], PID + "-nth")
        for c, j, x in zip(cases, jobs, res):
            ctx.count(["list", use_module, c["expr"]])
            ctx.validated += 1
            if c["error"]:
                if x.get("outcome") != "error":
                    ctx.violation("%s: an out-of-range index must be an error" % c["expr"], {"src": j["src"], "observed": x.get("css")})
                continue
            if x.get("outcome") != "css":
                ctx.violation("%s: expected a list, got %s" % (c["expr"], (x.get("err") or {}).get("message") or x.get("outcome")), {"src": j["src"]})
                continue
            got = decls(x)
            want = {"i": c["inspect"], "n": str(c["length"]), "s": c["sep"], "b": "true" if c["br"] else "false",
                    "z": str(c["idxz"]) if c["idxz"] else "null", "a": str(c["idxa"]) if c["idxa"] else "null"}
            bad = {k: (want[k], got.get(k)) for k in want if got.get(k) != want[k]}
            if bad:
                ctx.violation("%s: %s" % (c["expr"], ", ".join("%s expected %s got %s" % (k, w, g) for k, (w, g) in sorted(bad.items()))),
                              {"src": j["src"], "expected": want, "observed": got, "spec": "Lists"})
        for pj, x in zip(pjobs, pres):
            i, name = pj["id"]
            want = cases[i][name]
            ctx.evaluations += 1
            if want == "<error>":
                if x.get("outcome") != "error":
                    ctx.violation("%s on %s must be an error" % (name, cases[i]["expr"]), {"src": pj["src"], "observed": x.get("css")})
            else:
                got = decls(x).get("v") if x.get("outcome") == "css" else None
                if got != want:
                    ctx.violation("%s on %s: expected %s got %s" % (name, cases[i]["expr"], want, got), {"src": pj["src"], "spec": "Lists.Nth"})
    # ---- strings
    r = C.tlc("MC_Strings", cfg_text=STR_CFG % ((4, 3, 4) if not thorough else (5, 4, 6)), workers=8, timeout=3000)
    C.tlc_must_pass(r, "MC_Strings")
    ctx.add_tlc(r)
    cases = r.cases
    jobs = []
    for i, c in enumerate(cases):
        s = txt(c["s"])
        mod = i % 2 == 1
        f = {"length": ("string.length" if mod else "str-length") + "(\"%s\")" % s,
             "slice": ("string.slice" if mod else "str-slice") + "(\"%s\", %d, %d)" % (s, c["p1"], c["p2"]),
             "slice1": ("string.slice" if mod else "str-slice") + "(\"%s\", %d)" % (s, c["p1"]),
             "index": ("string.index" if mod else "str-index") + "(\"%s\", \"%s\")" % (s, txt(c["sub"])),
             "insert": ("string.insert" if mod else "str-insert") + "(\"%s\", \"Z\", %d)" % (s, c["p1"]),
             "split": "string.split(\"%s\", \"%s\"%s)" % (s, txt(c["sub"]), (", %d" % c["p2"]) if c["p2"] else "")}[c["fn"]]
        jobs.append({"id": i, "src": "@use \"sass:string\";\nx { v: inspect(%s); }\n" % f})
    res = C.run_cases(jobs, PID + "-str")
    for c, j, x in zip(cases, jobs, res):
        ctx.count(["str", c["s"], c["fn"], c["p1"], c["p2"]])
        ctx.validated += 1
        rs = c["result"]
        if rs["k"] == "list":
            want = "[" + ", ".join("\"%s\"" % txt(p_) for p_ in rs["v"]) + ("," if len(rs["v"]) == 1 else "") + "]"
        elif rs["k"] == "int":
            want = "null" if (c["fn"] == "index" and rs["v"] == 0) else str(rs["v"])
        else:
            want = "\"%s\"" % txt(rs["v"])
        got = decls(x).get("v") if x.get("outcome") == "css" else "<%s>" % x.get("outcome")
        if got != want:
            ctx.violation("%s: expected %s got %s" % (j["src"].split("inspect(")[1].split("); }")[0], want, got),
                          {"src": j["src"], "expected": want, "observed": got, "spec": "Strings"})
    # ---- table
    tjobs = []
    for e, want in TABLE:
        tjobs.append((e, want))
        for k, v in ALIAS.items():
            if e.startswith(k) and e.count(",") <= 1 and "deep" not in e:
                tjobs.append((v + e[len(k):], want))
    res = C.run_cases([{"id": i, "src": "@use \"sass:map\";\n@use \"sass:string\";\nx { v: inspect(%s); }\n" % e} for i, (e, w) in enumerate(tjobs)], PID + "-tab")
    for (e, want), x in zip(tjobs, res):
        ctx.count(["table", e])
        ctx.validated += 1
        got = "error" if x.get("outcome") == "error" else (decls(x).get("v") if x.get("outcome") == "css" else "<%s>" % x.get("outcome"))
        if (got or "").replace(" ", "") != want.replace(" ", ""):
            ctx.violation("%s: expected %s got %s" % (e, want, got), {"src": "x { v: inspect(%s); }" % e, "expected": want, "observed": got})
    ctx.sample({"list_case": cases[0] if False else None, "string_call": jobs[100]["src"]})
    ctx.assumptions += ["code-point labels are mapped to a, é, 👭, U+0301, b, c by the checker; the specification never sees bytes"]
