# The table MANIFEST.json is generated from (bin/mkmanifest).
HOOK_COMMITS = ["deff0f6"]
NOTES = ("All checks: bin/check <ID> --tier quick|thorough. Exit 0 held / 1 VIOLATION / 2 tool error. "
         "Specification in spec/, harness in harness/, known findings in known_findings.jsonl; see DESIGN.md.")
NOT_APPLICABLE = {}
CHECKS = {
    "C03": {
        "level": "model_checking",
        "technique": "TLA+ reference semantics (Eval.tla: scoping, closures, control flow, argument binding, operators); TLC enumerates/simulates programs (MC_Eval) and computes expected declarations and logger deliveries, grass is run on each; scope-operation traces from hooks validated by TLC (Trace_Scopes) on generated programs and the golden corpus",
        "text": "Bounded-exhaustive and simulated program spaces decided by an executable specification: every generated program's emitted declarations and @debug deliveries (message, line) must equal what Eval.tla computes (or fail when it says error); every variable lookup/assignment the implementation performs, on generated programs and on the repository's corpus, must pick the frame the abstract scoping rule picks.",
        "note": "Values limited to ints/strings/bools/null/flat lists/maps; recursion and long-running @while excluded (expectation 'unknown' is not judged); trace events carry ground-truth frame positions computed by the guarded hook.",
    },
    "C17": {
        "level": "model_checking",
        "technique": "TLA+ Media spec: TLC checks merge soundness over all in-scope pairs/lists; TLC-generated nestings compiled by grass; emitted @media chains judged by TLC trace machine Trace_Media under all 24 environments",
        "text": "Exhaustive over the bounded query universe of the property (types x modifiers x condition sequences, case spellings, or-queries, interpolation, 4 rule placements; lists and triples): every generated nesting is compiled by the real code and the emitted structure is judged against the specification's semantic intersection and merge classification by TLC.",
        "note": "Trusts the checker's CSS/media-query reader (vlib/cssread.py, p17.parse_query) and the 3-type x 3-feature environment model; feature conditions are opaque atoms.",
    },
}
