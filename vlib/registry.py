# The table MANIFEST.json is generated from (bin/mkmanifest).
HOOK_COMMITS = ["deff0f6"]
NOTES = ("All checks: bin/check <ID> --tier quick|thorough. Exit 0 held / 1 VIOLATION / 2 tool error. "
         "Specification in spec/, harness in harness/, known findings in known_findings.jsonl; see DESIGN.md.")
NOT_APPLICABLE = {}
CHECKS = {
    "C17": {
        "level": "model_checking",
        "technique": "TLA+ Media spec: TLC checks merge soundness over all in-scope pairs/lists; TLC-generated nestings compiled by grass; emitted @media chains judged by TLC trace machine Trace_Media under all 24 environments",
        "text": "Exhaustive over the bounded query universe of the property (types x modifiers x condition sequences, case spellings, or-queries, interpolation, 4 rule placements; lists and triples): every generated nesting is compiled by the real code and the emitted structure is judged against the specification's semantic intersection and merge classification by TLC.",
        "note": "Trusts the checker's CSS/media-query reader (vlib/cssread.py, p17.parse_query) and the 3-type x 3-feature environment model; feature conditions are opaque atoms.",
    },
}
