# The table MANIFEST.json is generated from (bin/mkmanifest).
HOOK_COMMITS = ["deff0f6"]
NOTES = ("All checks: bin/check <ID> --tier quick|thorough. Exit 0 held / 1 VIOLATION / 2 tool error. "
         "Specification in spec/, harness in harness/, known findings in known_findings.jsonl; see DESIGN.md.")
NOT_APPLICABLE = {}
CHECKS = {
    "C11": {
        "level": "model_checking",
        "technique": "TLA+ Selectors spec: selector AST, element matching over an enumerated universe of DOM trees (<= 4 nodes, 7 shapes), relations Subsumes / SameMeaning / WithinBoth quantified over every element of every DOM; TLC enumerates operand selectors compound by compound and derives related pairs by inserting a compound (MC_Selectors); grass evaluates is-superselector, selector-unify, -nest, -extend, -replace, -parse on each pair; results parsed by the checker and judged by TLC (Trace_Selectors, 12 parallel slices)",
        "text": "is-superselector(A,B)=true must imply that every element matched by B is matched by A, and is-superselector(A,A) must be true; every selector returned by selector-unify matches only elements matched by both operands; selector-parse output, selector-nest vs the nested rule and selector-extend vs @extend must have the same meaning; no call may crash. Operands: all complex selectors of <= 2 compounds over 6 compound forms and 4 combinators, 3-compound samples, all pairs of 13 single compounds with related :not()/:is() arguments, and ~2800 related pairs (B = A with one compound inserted).",
        "note": "Alphabet: two types, two classes, :not, :is, universal; ids, attributes and opaque pseudo-classes/elements are outside it; DOM universe of 7 shapes with 5-8 element kinds; completeness of is-superselector (false negatives) is not demanded by the property.",
    },
    "C15": {
        "level": "model_checking",
        "technique": "TLA+ Color spec over exact rationals (RGB<->HSL<->HWB by the CSS formulas, admissible-value sets at .5 channel boundaries, the colour functions by definition; TLC checks the HSL round trip on every generated colour) and an independent CSS named-colour table (ColorNames); TLC enumerates colour x function x parameter (MC_Color); grass evaluates each through red()/green()/blue()/alpha(); all 148 names and the short-hex cube are compared across 4-5 spellings for equality and identical compressed printing",
        "text": "Channels stay in [0,255] and alpha in [0,1] for every case; exact-HSL spelling of a lattice colour gives the colour back; adjust-hue for positive, negative and > 360 degree angles, lighten/darken/saturate/desaturate incl. 0 and 100 %, grayscale, complement (once/twice), invert (once/twice), mix at 0/25/50/100 %, color.hwb(), opacify/transparentize/fade-in and adjust-/change-/scale-color alpha arithmetic with clamping (alone and combined with an HSL adjustment), out-of-range constructor arguments.",
        "note": "Quick tier: 5-level lattice and every 7th short-hex colour (thorough: 9 levels, all 4096); the property's 'all 2^24' is not reached through TLC; floating-point rounding inside grass is only exposed where the exact value decides the channel (both neighbours accepted on exact ties).",
    },
    "C16": {
        "level": "model_checking",
        "technique": "TLA+ Calc spec: calculation AST, the quantity it denotes over exact rationals under three unit/var() environments (dimension vectors for length/angle/time), static classification (must fold / provably incompatible between numbers / stays a calculation) with TLC checking that a folding expression is environment-free; TLC grows expressions operation by operation (MC_Calc); grass's printed result is parsed back into the AST and TLC (Trace_Calc) requires the same quantity under every environment, a plain number where folding is due and an error where units are provably incompatible",
        "text": "All expressions of depth <= 2 (thorough 3) over unitless, px, in, em, %, vw, deg, s, ms and var() leaves with + - * / and calc/min/max/clamp (two and three arguments): 37 k in the quick tier. Semantic comparison, so a different but equivalent simplification is never an alarm; parentheses, precedence and sign normalisation are covered because the printed text is re-parsed with CSS calc precedence.",
        "note": "Left open (class 'open'): min()/max() mixing a unitless argument with a dimension (legacy global functions compare them); an error is accepted where the expression has no value CSS can hold (incompatible sums, possible compound units); decimals with > 6 fractional digits are read back as fractions with denominator <= 10000; units are compared only between numbers, as in the reference implementation.",
    },
    "C14": {
        "level": "model_checking",
        "technique": "TLA+ Lists spec as a machine (abstract list = items, separator incl. 'undecided', brackets; actions append/join/left-join/set-nth with every option; TLC enumerates all operation chains, MC_Lists) and Strings spec over code-point labels (slice/index/insert by the documented index arithmetic; TLC checks slice/insert laws and enumerates all strings x calls x indices, MC_Strings); grass evaluates every call through the global and the sass:list / sass:string spellings; plus a table of nested-key map functions and argument-validation errors",
        "text": "Every chain of <= 2 (thorough 3) list operations from 10 starting lists is observed through inspect, length, list-separator, is-bracketed, nth at six indices and index; every string of <= 3 (thorough 4) code points over ASCII, two-byte, astral and combining characters through str-length, str-slice (81 index pairs), str-index and str-insert; both spellings of every function must give the specification's value or error.",
        "note": "Map built-ins are covered by a fixed table (and by C09's machine); zip/quote/case functions by table entries only; one entry left open (map.deep-remove with a missing leading key).",
    },
    "C09": {
        "level": "model_checking",
        "technique": "TLA+ MapMachine spec: equality as classes of 45 representative values (TLC checks reflexive/symmetric/transitive once) and the map as a machine over association sequences (set/remove/merge/nested set/deep-merge) whose reachable states TLC checks for unique keys and order preservation at every step; TLC enumerates all ordered pairs (MC_Equality) and all operation sequences up to a bound (MC_Maps); grass evaluates each probe program; results compared with the specification",
        "text": "All 2025 ordered pairs through == != index map-has-key map-get map-remove map-merge map.set and literal-map duplicate rejection must agree with one equality bit; all sequences of <= 3 (thorough 4) map operations over keys with two equal spellings each (strings, lengths, colours) and nested maps must leave exactly the machine's association sequence as seen by inspect, map-keys, map-values and @each.",
        "note": "The universe is a finite set of representatives; the empty list / empty map pair is left open; texts compared ignoring spaces.",
    },
    "C07": {
        "level": "model_checking",
        "technique": "TLA+ Decimal spec (exact rationals; printing by long division to 10 fractional digits with the admissible neighbours at and near ties; no exponent/trailing zeros/+/-0; compressed leading zero) enumerated by TLC (MC_Numbers: quotient lattice, literal spellings and short decimal arithmetic, tolerance comparisons, modulo sign table, division by zero, truths of the math functions); plus trace validation (Trace_Numbers): for seeded literals and + - * / of literals the harness supplies the exact expansion of the IEEE double and TLC checks that grass printed exactly its correctly rounded 10-digit text",
        "text": "Decides the decimal-exact fragment of the property: every quotient of the integer lattice prints as its correctly rounded decimal; literals incl. exponent forms; fuzzy ==, <, <=, >, >= and integer checks at 1e-12 (equal) and 2e-11 (different); % takes the sign of the divisor; Infinity/NaN spellings; 25 identities of pow/sqrt/trig/log; and, for thousands of doubles per run, digit-exact printing of the double itself in both styles.",
        "note": "Not decided by this technique: that chains of operations equal IEEE double arithmetic beyond one operation on literals, and the last-digit accuracy of transcendental functions (TLC has no reals). Trace_Numbers trusts the harness's IEEE doubles (Python floats) for the value of an expression.",
    },
    "C08": {
        "level": "model_checking",
        "technique": "TLA+ Units spec (unit classes and CSS ratios as exact rationals, pi exponent for rad; TLC checks round-trip, transitivity and class/ratio coherence of the table) + Rational; TLC enumerates every operation x ordered unit pair/triple (MC_Units) with the exact expected value, unit, boolean or error; grass evaluates each expression; results compared with the exact rational",
        "text": "Exhaustive over the 34 known units, an unknown unit and unitless x {+ - % < >= == != * math.compatible math.unit math.div min max}, all three-argument min/max inside a unit class and all division-then-multiplication chains whose convertible pair must cancel (25 k cases; thorough adds two more magnitude pairs): value by the CSS ratios in the left operand's unit, errors for inconvertible units, unit algebra of * and math.div, compound units not emittable.",
        "note": "Printed numbers are compared within 1e-9 relative / 1.5e-10 absolute of the exact value (numeric accuracy proper is C07); a remainder that is exactly 0 may print as the divisor (binary floating point); left open: min/max of unitless with a unit, exact ties, which of two convertible candidates cancels.",
    },
    "C18": {
        "level": "model_checking",
        "technique": "One AST, two TLA+ pretty-printers (Render: SCSS and indented) over TLC-generated programs (MC_Eval), variation descriptors enumerated by TLC (MC_Variation: newline styles incl. mixed, blank/whitespace-only/comment line padding, trailing white space, BOM/@charset prefix, '-'/'_' name swaps) applied by the harness; all variants compiled by grass; TLC trace machine Trace_Agree requires identical CSS and logger messages (or unanimous failure), rejection of Sass-only constructs in CSS mode and CSS/SCSS agreement on Sass-free flat CSS",
        "text": "For each generated program: the SCSS rendering, the indented rendering and k seeded variation descriptors per syntax (out of 150) must all compile to the byte-identical CSS and the same @debug/@warn messages, or all fail; parsed as plain CSS the SCSS rendering must be rejected when the specification says it uses a Sass-only construct and must mean the same when it is Sass-free and flat.",
        "note": "Programs are those of the C03 generator (no selectors beyond class names, no at-rules other than the control directives); one combination is left open: trailing white space after '@content(args)' in the indented syntax.",
    },
    "C06": {
        "level": "model_checking",
        "technique": "TLA+ CssTokens.Canon / StyleEquivalent (formatting-only equivalence of token streams) judging, in TLC (Trace_Style), one event per input compiled in both styles: outcome, error message, logger deliveries and canonical token streams; inputs from TLC generators (MC_Style: 24 values x 27 places where evaluation turns a value into text; MC_Sheet; MC_Eval; MC_Nesting) and the golden corpus",
        "text": "For every input the expanded and compressed compilations must agree on success/failure and error message, deliver identical @debug/@warn sequences, and produce token streams that are equal after dropping insignificant white space, the optional last semicolon, non-preserved comments and the charset declaration/BOM, with numbers and colours in canonical spelling.",
        "note": "Number/colour canonicalisation (incl. rgb()/hsl() calls folded exactly) is done by the checker's tokenizer; outputs with unterminated strings are skipped. F11 (evaluation-time value-to-text conversion uses the output style) is a listed known finding, attributed only to generated cases of the matching value class and context.",
    },
    "C05": {
        "level": "model_checking",
        "technique": "TLA+ CssTokens spec (pushdown acceptor for balanced blocks/brackets, Sass-only token classes, charset/BOM rule, whitelist predicate for CSS-representable values) judging, in TLC (Trace_Css), one event per successful compilation: output tokens, charset facts and the results of compiling the output again as CSS and as SCSS; inputs from TLC generators (MC_Sheet string/escape atoms and non-ASCII placements, MC_Eval programs, MC_Nesting trees) and the golden corpus x {expanded, compressed} x {charset on, off}",
        "text": "Every admitted output must be accepted by the token acceptor, contain no Sass-only token, carry @charset (expanded) or a BOM (compressed) exactly when it has non-ASCII text and charset output is allowed, and be a fixed point: re-compiled as plain CSS and as SCSS it yields the same (context, selector, declarations, values) list. Strings are enumerated from escape/quote/control-character atoms; the non-ASCII character is placed in each of 9 syntactic positions.",
        "note": "The fixed-point and well-formedness clauses are demanded only of sheets whose values pass CssTokens.RepresentableValue (the property's antecedent), evaluated on the output; UTF-8 validity is taken from the worker; the checker's tokenizer and block reader are trusted.",
    },
    "C04": {
        "level": "model_checking",
        "technique": "TLA+ Flatten spec (parent-selector resolution incl. flattenVertically order and `&` through @at-root, bubbling of @media/@supports/unknown at-rules with media merging, every @at-root query, nested properties) as denotational reference; TLC checks it keeps every declaration exactly once and enumerates rule trees (MC_Nesting: exhaustive menus plus deep 'spine' chains); grass output read back independently and compared per (context path, selector)",
        "text": "Bounded-exhaustive rule trees: all trees within length/depth bounds over three menus (core nesting, `&` forms, at-rules with all @at-root queries) and all chains of up to 5 nested blocks with a trailing sibling rule over media/supports/at-root and unknown-at-rule alphabets. For each tree the set of (at-rule context path, selector list) blocks, their declarations and the order of declarations written in one source block must equal the specification's flattening.",
        "note": "Where blocks are split, hoisted or ordered relative to each other is deliberately not judged (the reference implementation's placement of copies is not part of the property); nested @media limited to a type query with a feature query inside (general merging is C17).",
    },
    "C01": {
        "level": "exploration",
        "technique": "TLA+ Grass pipeline machine (the only terminal actions are Finish and Fail with a public error kind; checked by TLC) + MC_Input: TLC enumerates every atom sequence up to a bound in 12 lexical contexts and every single-mutation descriptor; the harness compiles each (x 3 syntaxes, 6 rotated option combinations, sandboxed workers with watchdog and memory limit); outcome batches validated by TLC (Trace_Total)",
        "text": "Bounded exhaustive exploration: all strings of <= 4 (thorough 5) characters over a 13-character core alphabet in all three syntaxes; all short atom sequences in value, calc-argument, selector, interpolated-selector/media, selector-function, at-rule and comment contexts; single mutations (delete/duplicate/truncate/insert/replace/swap at every position) of seeded corpus inputs; non-UTF-8 entry bytes and imported files. Every execution must end as CSS or a structured error; a panic, abort, memory blow-up or hang is not an action of the specification.",
        "note": "Exploration, not proof: inputs are short or one edit away from corpus inputs; evaluation termination is observed through a watchdog (4 s, re-run alone with 24 s); unbounded @while is not generated.",
    },
    "C20": {
        "level": "model_checking",
        "technique": "TLA+ Cli machine (Start/OpenOutput/ReadInput/Compile/WriteOut/PrintErr) checked by TLC for 'no CSS on failure / CSS in exactly one place on success' and run for every flag vector x input class (MC_Cli); the real binary built from /repo is executed for each, the library is called in-process with the same options as oracle; TLC trace machine Trace_Cli judges exit status, stdout, output file and stderr",
        "text": "Exhaustive over style x --no-charset x --quiet x --no-unicode x 0/1/2 load paths x file/--stdin x stdout/output file (192 vectors) x 8 input classes (valid, with warnings, non-ASCII, needing a load path, parse error, evaluation error, missing input, uncreatable output): stdout or the output file must hold exactly the library's bytes, failures must exit non-zero with the rendered error on stderr and no CSS anywhere, warnings only on stderr.",
        "note": "One or two concrete inputs per class; the output file may be left empty (truncated) by a failed run, which the property allows.",
    },
    "C02": {
        "level": "model_checking",
        "technique": "TLA+ History spec (threads, per-thread histories, Finish admits only canon[j]); TLC enumerates single-thread histories over a prior-job alphabet and multi-thread schedules (MC_History); the harness executes them for real (prior jobs on the same fresh OS thread, barrier-released threads, fresh processes for canon and hash-seed variation); every start/finish event validated by TLC (Trace_History), with the known identifier-order deviation judged by a separate normalised fingerprint",
        "text": "Every history of <= MaxHist prior compilations (error paths, interner-perturbing declarations, module/extend/keyword-argument jobs) before each observed job, and every enumerated assignment of job sequences to concurrent threads, must end with the byte-identical result the job gives in a fresh process; repeated fresh processes must agree with each other.",
        "note": "Interleavings inside one compilation are sampled from the OS scheduler, not enumerated; jobs never print unique-id()/random() values. F9 (order of keyword-argument names follows interning order) is a listed known finding: only differences that are pure re-orderings of words are attributed to it.",
    },
    "C12": {
        "level": "model_checking",
        "technique": "TLA+ ModuleGraph spec (visibility through show/hide/prefix, privacy, once-only loading and load order, shared module variables, with-configuration rules, named deviation switch); TLC enumerates all edge decorations x probes of a three-file project (MC_Modules); grass compiles each over an in-memory Fs; TLC trace machine Trace_Modules judges probe value/error, marker order and load log",
        "text": "Exhaustive over the decoration space of entry->m1, m1->m2, entry->m2 (namespace/as */with, @use or @forward with show/hide/as prefix/with, diamond loads in both orders, URL spellings) x 13 probes (public/private reads, forwarded members, namespace assignment seen through another path, un-namespaced access). Every compilation must produce exactly the value or error, the once-only marker rules in load order and the once-only load messages that the specification computes.",
        "note": "Projects have three files; cycles, built-in module aliases and deeper graphs are not generated. Two combinations are left open (not generated) because the reference behaviour could not be established offline: pass-through configuration of an already loaded module, and show/hide + prefix + pass-through configuration.",
    },
    "C13": {
        "level": "model_checking",
        "technique": "TLA+ ImportSearch spec (priority classes per location, relative location then load paths, import-only variants, index directories, extension appended); TLC checks resolution soundness/decoy inertness on the model and enumerates virtual layouts; grass runs each over a recording in-memory Fs in a working directory seeded with real-disk decoys; TLC trace machine Trace_Imports judges every Fs call (confinement) and the loaded file/syntax/error",
        "text": "Exhaustive over URL shapes x @import/@use/@forward x importer locations (incl. two searches for one URL in one compilation) x load-path lists x all unambiguous file subsets up to the bound. Each compilation's complete Fs call log must stay inside the specification's candidate set and the marker rule that reaches the output must belong to the file the specification resolves (parsed with the syntax of its extension), or the error must be located at the import.",
        "note": "Ambiguous layouts excluded as the property says; plain-CSS classification checked for *.css @import only (url()/http forms are covered through the corpus in C05/C18); CSS-vs-SCSS parsing of .css files is not distinguishable by the marker (only sass vs non-sass is).",
    },
    "C19": {
        "level": "model_checking",
        "technique": "TLA+ Diag spec (location bounds, rendering prefix, delivery-order rule with the permitted de-duplication) judging one event per compilation in TLC (Trace_Diag); events from MC_Eval 'diag' programs with expectations computed by Eval.tla (file, line, message) x quiet x unicode x CRLF/comment-padded variants, and from failing corpus inputs and their seeded mutations",
        "text": "Every compilation performed is an event that TLC must explain with Diag: errors well located inside a known file and renderable with the 'Error: <message>' prefix in both modes, @error = inspect(value) at the directive's file/line, logger deliveries = executed directives in program order (a repeated identical @warn of one directive may be dropped), nothing under quiet, zero bytes on fd 1/2.",
        "note": "Expected deliveries exist only for generated programs; arbitrary failing inputs are judged on location bounds/rendering only. Column positions are not demanded. Under quiet the error/ok outcome is not judged (grass skips @debug/@warn operands).",
    },
    "C03": {
        "level": "model_checking",
        "technique": "TLA+ reference semantics (Eval.tla: scoping, closures, control flow, argument binding, operators); TLC enumerates/simulates programs (MC_Eval) and computes expected declarations and logger deliveries, grass is run on each; scope-operation traces from hooks validated by TLC (Trace_Scopes) on generated programs and the golden corpus",
        "text": "Bounded-exhaustive and simulated program spaces decided by an executable specification: every generated program's emitted declarations and @debug deliveries (message, line) must equal what Eval.tla computes (or fail when it says error); every variable lookup/assignment the implementation performs, on generated programs and on the repository's corpus, must pick the frame the abstract scoping rule picks.",
        "note": "Values limited to ints/strings/bools/null/flat lists/maps; recursion and long-running @while excluded (expectation 'unknown' is not judged); trace events carry ground-truth frame positions computed by the guarded hook.",
    },
    "C17": {
        "level": "model_checking",
        "technique": "TLA+ Media spec: TLC checks merge soundness over all in-scope pairs/lists; TLC-generated nestings compiled by grass; emitted @media chains judged by TLC trace machine Trace_Media under all 24 environments",
        "text": "Exhaustive over the bounded query universe of the property (types x modifiers x condition sequences, case spellings, or-queries, interpolation, 4 rule placements; lists and triples): every generated nesting is compiled by the real code and the emitted structure is judged against the specification's semantic intersection and merge classification by TLC.",
        "note": "Trusts the checker's CSS/media-query reader (vlib/cssread.py, p17.parse_query) and the 3-type x 3-feature environment model; feature conditions are opaque atoms.",
    },
}
