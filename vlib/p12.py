# C12: modules load once, stay isolated and expose only public members.
import json
import os

from . import common as C
from . import cssread

PID = "C12"

CFG = """SPECIFICATION Spec
CONSTANTS
  Probes = {%s}
  Spellings = {%s}
INVARIANTS ShowMonotone LoadOnce EmitCase
CHECK_DEADLOCK FALSE
"""
ALL_PROBES = ["a1", "f1", "mx1", "priv1", "fwd-a2", "fwd-f2", "fwd-mx2", "fwd-priv2", "fwd-unprefixed", "set-a1",
              "diamond", "unused-ns", "none"]


def q(xs):
    return ", ".join('"%s"' % x for x in xs)


def run(ctx):
    ctx.rule = ("TLC enumerates every decoration of the three edges entry->m1, m1->m2, entry->m2 (namespace / as * / with, "
                "@use or @forward with show/hide/prefix/with, load order and URL spelling) x probes; all are non-trivial "
                "(each has an expected value/error, marker order and load log)")
    spell = ["m2", "./m2", "_m2", "m2.scss"] if ctx.tier == "thorough" else ["m2", "./m2", "_m2"]
    r = C.tlc("MC_Modules", cfg_text=CFG % (q(ALL_PROBES), q(spell)), workers=8, timeout=3000)
    C.tlc_must_pass(r, "MC_Modules")
    ctx.add_tlc(r)
    cases = r.cases
    jobs = [{"id": i, "src": "\n".join(c["entry"]) + "\n",
             "files": {"_m1.scss": "\n".join(c["m1"]) + "\n", "_m2.scss": "\n".join(c["m2"]) + "\n"}}
            for i, c in enumerate(cases)]
    res = C.run_cases(jobs, PID)
    tpath = os.path.join(C.WORK, "trace-C12-%d.ndjson" % os.getpid())
    n = 0
    with open(tpath, "w") as f:
        for i, (c, j, x) in enumerate(zip(cases, jobs, res)):
            ctx.count([c["e1"], c["e12"], c["e2"], c["probe"]])
            oc = x.get("outcome")
            if oc not in ("css", "error"):
                ctx.violation("compilation ended with %s (%s)" % (oc, x.get("panic")), {"job": j, "observed": x})
                continue
            out, markers = [], []
            if oc == "css":
                try:
                    flat = cssread.flatten(cssread.parse(x["css"]))
                except cssread.CssSyntaxError as e:
                    ctx.violation("output not well-formed: %s" % e, {"job": j, "observed": x})
                    continue
                for _, sel, decls in flat:
                    if decls is None:
                        continue
                    if sel == ".out":
                        out.extend([list(d) for d in decls])
                    else:
                        dd = dict(decls)
                        markers.append([sel, dd.get("k", "?") + ("/" + dd["j"] if "j" in dd else "")])
            rec = {"id": i, "expect": c["expect"], "expectdev": c["expectdev"], "outcome": oc, "out": out,
                   "markers": markers, "loads": [m["msg"] for m in x.get("log", [])],
                   "prop": "mark" if "mx" in c["probe"] else "r"}
            for e in (rec["expect"], rec["expectdev"]):
                for k in ("v", "m1", "m2"):
                    e.setdefault(k, "")
            f.write(json.dumps(rec) + "\n")
            n += 1
    tr = C.tlc("Trace_Modules", workers=1, dfs=True, env={"TRACE": tpath}, timeout=3000, heap="8g")
    ctx.add_tlc(tr)
    if tr.rc != 0 and not any(k == "REJECT" for k, _ in tr.prints):
        C.log(tr.out[-3000:])
        raise C.ToolError("Trace_Modules failed")
    ctx.validated += n
    for kind, v in tr.prints:
        if kind == "REJECT":
            i = v["id"]
            c = cases[i]
            ctx.violation("module semantics not allowed by ModuleGraph (probe %s)" % c["probe"],
                          {"job": jobs[i], "decorations": [c["e1"], c["e12"], c["e2"]], "probe": c["probe"],
                           "expected": c["expect"],
                           "deviation": "D_fwd_with_on_loaded_module_ignored" if v["bydev"] else "",
                           "observed": {k: res[i].get(k) for k in ("outcome", "css", "err", "log")},
                           "spec": "Trace_Modules.Matches"})
    for c, x in list(zip(cases, res))[:2]:
        ctx.sample({"entry": c["entry"], "m1": c["m1"], "m2": c["m2"], "expect": c["expect"], "css": x.get("css")})
    os.remove(tpath)
    ctx.assumptions += [
        "three-file projects (entry, m1, m2) with one probe each; deeper graphs and cycles are not generated",
        "left open (not generated): pass-through configuration of an already loaded module; show/hide list + prefix + pass-through configuration",
    ]
