# C12: modules load once, stay isolated and expose only public members.
import json
import os

from . import common as C
from . import cssread

PID = "C12"

CFG = """SPECIFICATION Spec
CONSTANTS
  Probes = {%s}
  Spellings = {%s}
INVARIANTS ShowMonotone LoadOnce EmitCase
CHECK_DEADLOCK FALSE
"""
ALL_PROBES = ["a1", "f1", "mx1", "priv1", "fwd-a2", "fwd-f2", "fwd-mx2", "fwd-priv2", "fwd-unprefixed", "set-a1",
              "diamond", "unused-ns", "none"]


def q(xs):
    return ", ".join('"%s"' % x for x in xs)


def run(ctx):
    ctx.rule = ("TLC enumerates every decoration of the three edges entry->m1, m1->m2, entry->m2 (namespace / as * / with, "
                "@use or @forward with show/hide/prefix/with, load order and URL spelling) x probes; all are non-trivial "
                "(each has an expected value/error, marker order and load log)")
    spell = ["m2", "./m2", "_m2", "m2.scss"] if ctx.tier == "thorough" else ["m2", "./m2", "_m2"]
    r = C.tlc("MC_Modules", cfg_text=CFG % (q(ALL_PROBES), q(spell)), workers=8, timeout=3000)
    C.tlc_must_pass(r, "MC_Modules")
    ctx.add_tlc(r)
    cases = r.cases
    jobs = [{"id": i, "src": "\n".join(c["entry"]) + "\n",
             "files": {"_m1.scss": "\n".join(c["m1"]) + "\n", "_m2.scss": "\n".join(c["m2"]) + "\n"}}
            for i, c in enumerate(cases)]
    res = C.run_cases(jobs, PID)
    tpath = os.path.join(C.WORK, "trace-C12-%d.ndjson" % os.getpid())
    n = 0
    with open(tpath, "w") as f:
        for i, (c, j, x) in enumerate(zip(cases, jobs, res)):
            ctx.count([c["e1"], c["e12"], c["e2"], c["probe"]])
            oc = x.get("outcome")
            if oc not in ("css", "error"):
                ctx.violation("compilation ended with %s (%s)" % (oc, x.get("panic")), {"job": j, "observed": x})
                continue
            out, markers = [], []
            if oc == "css":
                try:
                    flat = cssread.flatten(cssread.parse(x["css"]))
                except cssread.CssSyntaxError as e:
                    ctx.violation("output not well-formed: %s" % e, {"job": j, "observed": x})
                    continue
                for _, sel, decls in flat:
                    if decls is None:
                        continue
                    if sel == ".out":
                        out.extend([list(d) for d in decls])
                    else:
                        dd = dict(decls)
                        markers.append([sel, dd.get("k", "?") + ("/" + dd["j"] if "j" in dd else "")])
            rec = {"id": i, "expect": c["expect"], "expectdev": c["expectdev"], "outcome": oc, "out": out,
                   "markers": markers, "loads": [m["msg"] for m in x.get("log", [])],
                   "prop": "mark" if "mx" in c["probe"] else "r"}
            for e in (rec["expect"], rec["expectdev"]):
                for k in ("v", "m1", "m2"):
                    e.setdefault(k, "")
            f.write(json.dumps(rec) + "\n")
            n += 1
    tr = C.tlc("Trace_Modules", workers=1, dfs=True, env={"TRACE": tpath}, timeout=3000, heap="8g")
    ctx.add_tlc(tr)
    if tr.rc != 0 and not any(k == "REJECT" for k, _ in tr.prints):
        C.log(tr.out[-3000:])
        raise C.ToolError("Trace_Modules failed")
    ctx.validated += n
    for kind, v in tr.prints:
        if kind == "REJECT":
            i = v["id"]
            c = cases[i]
            ctx.violation("module semantics not allowed by ModuleGraph (probe %s)" % c["probe"],
                          {"job": jobs[i], "decorations": [c["e1"], c["e12"], c["e2"]], "probe": c["probe"],
                           "expected": c["expect"],
                           "deviation": "D_fwd_with_on_loaded_module_ignored" if v["bydev"] else "",
                           "observed": {k: res[i].get(k) for k in ("outcome", "css", "err", "log")},
                           "spec": "Trace_Modules.Matches"})
    for c, x in list(zip(cases, res))[:2]:
        ctx.sample({"entry": c["entry"], "m1": c["m1"], "m2": c["m2"], "expect": c["expect"], "css": x.get("css")})
    os.remove(tpath)
    builtins(ctx)
    cycles(ctx)
    ctx.assumptions += [
        "decorated edges: three-file projects (entry, m1, m2) with one probe each; load-once/cycles: four-file graphs with plain @use/@forward edges",
        "built-in modules: the functions of the table in Builtins.tla (math, color, selector, meta; list/map/string spellings are C14's)",
        "left open (not generated): pass-through configuration of an already loaded module; show/hide list + prefix + pass-through configuration",
    ]


def builtins(ctx):
    """Last clause of C12: a built-in module's function behaves like its global alias; misuse of a built-in module is an error."""
    r = C.tlc("MC_Builtins", cfg_text="SPECIFICATION Spec\nINVARIANTS TableOk Emit\nCHECK_DEADLOCK FALSE\n", workers=4, timeout=1200)
    C.tlc_must_pass(r, "MC_Builtins")
    ctx.add_tlc(r)
    cases = r.cases
    jm, jg = [], []
    for i, c in enumerate(cases):
        if c["kind"] == "alias":
            jm.append({"id": i, "src": "\n".join(c["viamodule"]) + "\n"})
            jg.append({"id": i, "src": "\n".join(c["viaglobal"]) + "\n"})
        else:
            jm.append({"id": i, "src": "\n".join(c["sheet"]) + "\n"})
            jg.append({"id": i, "src": "a { r: 1; }\n"})
    rm = C.run_cases(jm, PID + "-bm")
    rg = C.run_cases(jg, PID + "-bg")
    nok = 0
    for c, j, g, xm, xg in zip(cases, jm, jg, rm, rg):
        ctx.count(["builtin", c.get("mod"), c.get("member"), c["use"], j["src"]])
        om, og = xm.get("outcome"), xg.get("outcome")
        if om not in ("css", "error"):
            ctx.violation("compilation ended with %s (%s)" % (om, xm.get("panic")), {"src": j["src"], "observed": xm})
            continue
        if c["kind"] == "misuse":
            if om != "error":
                ctx.violation("misuse of a built-in module (%s) compiled" % c["use"], {"src": j["src"], "css": xm.get("css"), "spec": "Builtins.Misuses"})
            else:
                ctx.validated += 1
            continue
        if og not in ("css", "error"):
            continue
        if om != og or (om == "css" and xm["css"] != xg["css"]):
            ctx.violation("%s.%s and its global alias %s disagree" % (c["mod"], c["member"], c["alias"]),
                          {"src": j["src"], "global": g["src"], "observed": {"module": xm.get("css") or (xm.get("err") or {}).get("message"),
                                                                             "global": xg.get("css") or (xg.get("err") or {}).get("message")},
                           "spec": "Builtins.Functions"})
        else:
            ctx.validated += 1
            nok += om == "css"
    ctx.extra["builtin_cases"] = len(cases)
    ctx.extra["builtin_alias_pairs_with_css"] = nok


def cycles(ctx):
    """Load-once, evaluation order and cycle detection over graphs of three library files."""
    me = 3 if ctx.tier == "quick" else 4
    r = C.tlc("MC_Cycles", cfg_text="SPECIFICATION Spec\nCONSTANTS MaxEdges = %d\nINVARIANTS SelfLoopIsCycle Emit\nCHECK_DEADLOCK FALSE\n" % me,
              workers=6, timeout=1800)
    C.tlc_must_pass(r, "MC_Cycles")
    ctx.add_tlc(r)
    cases = r.cases
    if len(cases) > 20000:
        import random
        cases = random.Random(ctx.seed).sample(cases, 20000)
    jobs = [{"id": i, "src": "\n".join(c["entry"]) + "\n",
             "files": {"_%s.scss" % m: "\n".join(c[m]) + "\n" for m in ("m1", "m2", "m3")}} for i, c in enumerate(cases)]
    res = C.run_cases(jobs, PID + "-cyc")
    ncyc = 0
    for c, j, x in zip(cases, jobs, res):
        ctx.count(["graph", c["entry"], c["m1"], c["m2"], c["m3"]])
        oc = x.get("outcome")
        rep = {"job": j, "cyclic": c["cyclic"], "reachable": c["reachable"], "observed": {k: x.get(k) for k in ("outcome", "css", "err", "panic")},
               "spec": "MC_Cycles.Cyclic/Before"}
        if oc not in ("css", "error"):
            ctx.violation("compilation of a module graph ended with %s" % oc, rep)
            continue
        if c["cyclic"]:
            ncyc += 1
            if oc != "error":
                ctx.violation("a module cycle reachable from the entry was not reported as an error", rep)
            else:
                ctx.validated += 1
            continue
        if oc == "error":
            ctx.violation("an acyclic module graph failed: %s" % (x.get("err") or {}).get("message"), rep)
            continue
        order = [sel for _, sel, ds in cssread.flatten(cssread.parse(x["css"])) if ds]
        want = sorted("." + m for m in c["reachable"]) + [".entry"]
        if sorted(order) != sorted(want):
            ctx.violation("markers emitted %s, expected each of %s exactly once" % (order, want), rep)
            continue
        bad = [(a, b) for a, b in c["before"] if b != "entry" and order.index("." + a) > order.index("." + b)]
        if bad or order[-1] != ".entry":
            ctx.violation("a module's CSS was emitted before the CSS of a module it loads: %s in %s" % (bad, order), rep)
            continue
        ctx.validated += 1
    ctx.extra["graphs"] = len(cases)
    ctx.extra["graphs_with_reachable_cycle"] = ncyc
