# C11: selector functions are sound with respect to element matching.
import json
import re
import os
import random

from . import common as C
from . import cssread
from . import selparse

PID = "C11"

CFG = """SPECIFICATION Spec
CONSTANTS
  MaxCompounds = %d
  Menu = {%s}
  Combs = {%s}
  Derive = %s
INVARIANT Emit
CHECK_DEADLOCK FALSE
"""


def q(xs):
    return ", ".join('"%s"' % x for x in xs)


def universe(ctx, maxc, menu, combs=(" ", ">", "+", "~"), derive=False):
    r = C.tlc("MC_Selectors", cfg_text=CFG % (maxc, q(menu), q(combs), "TRUE" if derive else "FALSE"), workers=6, timeout=3000)
    C.tlc_must_pass(r, "MC_Selectors")
    ctx.add_tlc(r)
    if hasattr(ctx, "extra"):
        ctx.extra["selectors_generated"] = ctx.extra.get("selectors_generated", 0) + len(r.cases)
        ctx.extra["selectors_satisfiable_in_dom_universe"] = ctx.extra.get("selectors_satisfiable_in_dom_universe", 0) + sum(1 for c in r.cases if c.get("sat"))
    return r.cases


def decls(x):
    out = {}
    for _, sel, ds in cssread.flatten(cssread.parse(x["css"])):
        if ds:
            out.update(dict(ds))
    return out


def run(ctx):
    rnd = random.Random(ctx.seed)
    ctx.rule = ("operands: complex selectors enumerated compound by compound by MC_Selectors (types, classes, :not(), :is(), universal; "
                "descendant/child/sibling combinators; <= 2 compounds exhaustively, 3 by sample); pairs of them go through "
                "is-superselector, selector-unify, selector-nest, selector-append, selector-extend/-replace and selector-parse; each call "
                "is one event judged by TLC (Trace_Selectors) against element matching over all 1721 DOMs of <= 4 nodes; non-trivial = "
                "distinct (function, operands)")
    thorough = ctx.tier == "thorough"
    sels = universe(ctx, 2, ["a", ".x", ".y", "a.x", ":not(.x)", ":is(.x, b)"])
    sels3 = universe(ctx, 3, ["a", ".x", "b.y"], (" ", ">", "~", "+"))
    extra = universe(ctx, 2, ["a", "b", ".x", ".y", "a.x", "b.y", ".x.y", "*", ":not(.x)", "a:not(.y)", ":is(.x, b)", ".y:not(.x)", ":not(a.x)"]) if thorough else []
    pool = sels + [s for s in sels3 if len(s["ast"]) == 3] + extra
    pairs = [(a, b) for a in sels for b in sels]
    if not thorough:
        pairs = rnd.sample(pairs, 350)
    pairs += [(rnd.choice(pool), rnd.choice(pool)) for _ in range(250 if not thorough else 20000)]
    # single compounds incl. :not()/:is() with related arguments, all ordered pairs
    ones = universe(ctx, 1, ["a", ".x", ".y", "a.x", ".x.y", ":not(.x)", ":not(.y)", ":not(.x.y)", ":not(a.x)", ":is(.x)", ":is(.x.y)", ":is(.x, b)", ".y:not(.x)"])
    pairs += [(a, b) for a in ones for b in ones]
    # related pairs: B = A with one more compound inserted somewhere (the interesting side of superselector / unify)
    der = universe(ctx, 2, ["a", ".x", "b.y"], derive=True)
    der = [d for d in der if d["ast2"]]
    lite = set()
    for d in der:
        b = {"text": selparse.complex_text(d["ast2"]), "ast": d["ast2"]}
        lite.add(len(pairs))
        pairs.append((d, b))          # judged for is-superselector / selector-unify only (volume)
        lite.add(len(pairs))
        pairs.append((b, d))
    # spelling variants: every third pair is also run with '.y' written as an id, an attribute or a pseudo-class (same meaning in
    # the model, different simple-selector kinds in grass)
    modes = ["id", "attr", "pseudo"]
    variants = []
    for pi, (a, b) in enumerate(pairs):
        if (pi % 3 == 0 or thorough) and (".y" in a["text"] or ".y" in b["text"]):
            md = modes[(pi // 3) % 3]
            variants.append((dict(a, text=selparse.respell(a["text"], md)), dict(b, text=selparse.respell(b["text"], md))))
    ctx.extra["spelling_variants"] = len(variants)
    lite = set(lite)
    pairs = list(pairs) + variants
    jobs = []
    meta = []
    for pi, (a, b) in enumerate(pairs):
        A, B = a["text"], b["text"]
        if pi in lite:
            jobs.append({"id": len(jobs), "lite": True, "src": "x { sup: is-superselector(\"%s\", \"%s\"); self: true; uni: inspect(selector-unify(\"%s\", \"%s\")); }\n" % (A, B, A, B)})
            meta.append((a, b))
            continue
        jobs.append({"id": len(jobs), "src": "x { sup: is-superselector(\"%s\", \"%s\"); self: is-superselector(\"%s\", \"%s\"); "
                                            "uni: inspect(selector-unify(\"%s\", \"%s\")); nest: selector-nest(\"%s\", \"%s\"); "
                                            "parse: selector-parse(\"%s\"); ext: selector-extend(\"%s\", \".x\", \"%s\"); "
                                            "rep: selector-replace(\"%s\", \".x\", \"%s\"); "
                                            "cext: selector-extend(\"%s\", \".x.y\", \"%s\"); crep: selector-replace(\"%s\", \".x.y\", \"%s\"); }\n"
                                            "%s { %s { m: nest; } }\n"
                                            % (A, B, A, A, A, B, A, B, A, A, B, A, B, A, B, A, B, A, B)})
        meta.append((a, b))
    res = C.run_cases([{k: v for k, v in j.items() if k != "lite"} for j in jobs], PID)
    # the @extend counterpart of selector-extend lives in its own style sheet (an @extend rewrites every rule of a sheet)
    ejobs = [{"id": i, "src": "%s { n: ext; }\n%s { @extend .x; }\n" % (a["text"], b["text"])} for i, (a, b) in enumerate(meta)]
    eres = C.run_cases(ejobs, PID + "-ext")
    # selector-append(A, B) against the nested rule 'A { &B { } }': separate sheets, because either may legitimately be an error
    # (B starting with a combinator or '*'); both must then fail, otherwise both must print the same selector
    apairs = [(a, b) for pi, (a, b) in enumerate(pairs) if pi not in lite]
    afun = C.run_cases([{"id": i, "src": "x { app: selector-append(\"%s\", \"%s\"); }\n" % (a["text"], b["text"])} for i, (a, b) in enumerate(apairs)], PID + "-appf")
    arule = C.run_cases([{"id": i, "src": "%s { &%s { m: app; } }\n" % (a["text"], b["text"])} for i, (a, b) in enumerate(apairs)], PID + "-appr")

    def seltext(t):
        return re.sub(r"\s*,\s*", ",", re.sub(r"\s+", " ", t.strip()))
    nappend = 0
    for (a, b), xf, xr in zip(apairs, afun, arule):
        of, orr = xf.get("outcome"), xr.get("outcome")
        src = "x { app: selector-append(\"%s\", \"%s\"); }\n%s { &%s { m: app; } }\n" % (a["text"], b["text"], a["text"], b["text"])
        if of not in ("css", "error"):
            ctx.violation("selector-append crashed on (%s | %s): %s" % (a["text"], b["text"], xf.get("panic") or of), {"src": src, "outcome": of})
            continue
        if orr not in ("css", "error"):
            continue                      # a crash of the nested rule itself is C01/C04's business
        if b["text"].lstrip().startswith("*"):
            continue                      # '&*' is not a nested rule Sass defines; selector-append rejects a leading universal selector
        nappend += 1
        if of != orr:
            ctx.violation("selector-append and the nested rule '&B' disagree on (%s | %s): function %s, rule %s" % (a["text"], b["text"], of, orr),
                          {"src": src, "function": "append", "a": a["text"], "b": b["text"]})
            continue
        if of == "css":
            fsel = decls(xf).get("app", "")
            rsel = [sel for _, sel, ds in cssread.flatten(cssread.parse(xr["css"])) if ds and ("m", "app") in ds]
            if rsel and seltext(fsel) != seltext(rsel[0]):
                ctx.violation("selector-append(%s, %s) = %s but the nested rule gives %s" % (a["text"], b["text"], fsel, rsel[0]),
                              {"src": src, "function": "append", "a": a["text"], "b": b["text"], "observed": {"function": fsel, "rule": rsel[0]}})
    ctx.extra["append_pairs_compared"] = nappend
    ctx.validated += nappend
    tpath = os.path.join(C.WORK, "trace-C11-%d.ndjson" % os.getpid())
    events = []
    judged = set()
    nobs = [0]

    def ast_of(text):
        return selparse.parse_list(text)
    with open(tpath, "w") as f:
        for (a, b), j, x, xe in zip(meta, jobs, res, eres):
            ctx.count(["pair", a["text"], b["text"]])
            oc = x.get("outcome")
            if oc not in ("css", "error"):
                ctx.violation("selector functions crashed on (%s | %s): %s" % (a["text"], b["text"], x.get("panic") or oc), {"src": j["src"], "outcome": oc})
                continue
            if oc == "error":
                # the @extend part may legitimately fail (e.g. extender not allowed); re-run without it below is not needed: judge nothing
                msg = (x.get("err") or {}).get("message", "")
                ctx.extra["errors"] = ctx.extra.get("errors", 0) + 1
                continue
            d = decls(x)
            flat = cssread.flatten(cssread.parse(x["css"]))
            nested = [sel for _, sel, ds in flat if ds and ("m", "nest") in ds]
            extended = []
            if xe.get("outcome") == "css":
                extended = [sel for _, sel, ds in cssread.flatten(cssread.parse(xe["css"])) if ds and ("n", "ext") in ds]
            A = [a["ast"]]
            Bq = [b["ast"]]

            def ev(k, **kw):
                e = {"k": k, "a": A, "b": Bq, "out": [], "answer": False, "isnull": False}
                e.update(kw)
                if k in ("superself", "same"):
                    e["b"] = []                       # the second operand plays no part in these judgements
                key = json.dumps(e, sort_keys=True)
                nobs[0] += 1
                if key in judged:                     # the same observation was already queued: one judgement serves both
                    return
                judged.add(key)
                e["id"] = len(events)
                events.append((j, a, b, k, kw))
                f.write(json.dumps(e) + "\n")
            def unwrap(t):
                # inspect() of a one-element comma list is written '(item,)'
                t = (t or "").strip()
                if t.startswith("(") and t.endswith(")"):
                    t = t[1:-1].strip()
                return t.rstrip(",").strip()

            def attempt(fn):
                # each observation is judged on its own: one unreadable result does not hide the others
                try:
                    fn()
                except selparse.Unsupported:
                    ctx.extra["unparsed"] = ctx.extra.get("unparsed", 0) + 1
            ev("super", answer=d.get("sup") == "true")
            if d.get("uni") == "null":
                ev("unify", isnull=True)
            else:
                attempt(lambda: ev("unify", out=ast_of(unwrap(d.get("uni", "")))))
            if j.get("lite"):
                continue
            ev("superself", answer=d.get("self") == "true")
            attempt(lambda: ev("same", out=ast_of(d.get("parse", ""))))
            if nested:
                attempt(lambda: ev("same", a=ast_of(d.get("nest", "")), out=ast_of(nested[0])))            # selector-nest vs nested rules
            # a compound extendee (.x.y) only applies to a compound that holds all its simple selectors: where no compound of A
            # does, selector-extend and selector-replace must give A back
            if not any("x" in cp["cmp"]["cls"] and "y" in cp["cmp"]["cls"] for cp in a["ast"]) and ":is(" not in a["text"] and ":not(" not in a["text"]:
                attempt(lambda: ev("same", out=ast_of(d.get("cext", ""))))
                attempt(lambda: ev("same", out=ast_of(d.get("crep", ""))))
            if extended and ".x" in a["text"]:
                attempt(lambda: ev("same", a=ast_of(d.get("ext", "")), out=ast_of(extended[0])))           # selector-extend vs @extend
    dist, gen, prints = C.tlc_trace_parallel("Trace_Selectors", tpath, nchunks=12)
    ctx.states += dist
    ctx.transitions += gen
    ctx.validated += nobs[0]
    ctx.extra["distinct_observations_judged"] = len(events)
    for kind, v in prints:
        if kind == "REJECT":
            j, a, b, k, kw = events[v["id"]]
            ctx.violation("%s on (%s | %s) is unsound: %s" % (k, a["text"], b["text"], json.dumps(kw)[:200]),
                          {"src": j["src"], "function": k, "a": a["text"], "b": b["text"], "observed": kw, "spec": "Trace_Selectors.Allowed"})
    ctx.sample({"a": pairs[0][0]["text"], "b": pairs[0][1]["text"], "probe": jobs[0]["src"]})
    os.remove(tpath)
    ctx.assumptions += ["DOM universe: trees of <= 4 nodes over 2 element types x subsets of 2 classes (1721 DOMs); ids, attributes and opaque pseudo-classes are outside the alphabet",
                        "selector-nest / selector-extend are compared (by meaning) with what grass itself produces for the equivalent nested rule / @extend"]
