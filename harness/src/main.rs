// gworker: executes compilation cases against the real grass library and reports
// observations.  It knows nothing about Sass: a case is (source text or bytes,
// options, virtual files); an observation is (outcome, css / error fields, logger
// deliveries, Fs calls, bytes that reached fd 1/2 during the call, scope events).
//
// usage: gworker <cases.ndjson> <results.ndjson> [skip]
//   one result line per case line, in order, appended and flushed after each
//   case, so that the supervisor can tell which case a hang/crash belongs to.
//   fd 1 and fd 2 are redirected to <results>.stdio; growth of that file during a
//   compilation is reported in the case's "stdio" field.

use std::cell::RefCell;
use std::collections::{BTreeMap, BTreeSet};
use std::fs::{File, OpenOptions};
use std::io::{self, BufRead, BufReader, Read, Seek, SeekFrom, Write};
use std::os::unix::io::AsRawFd;
use std::panic::{catch_unwind, AssertUnwindSafe};
use std::path::{Component, Path, PathBuf};
use std::sync::{Arc, Barrier, Mutex};

use grass_compiler as grass;
use grass_compiler::codemap::SpanLoc;
use serde_json::{json, Map, Value};

extern "C" {
    fn dup2(a: i32, b: i32) -> i32;
}

// ---------------------------------------------------------------- Fs

#[derive(Debug, Clone)]
enum Entry {
    Bytes(Vec<u8>),
    IoErr,
}

#[derive(Debug)]
struct MemFs {
    files: BTreeMap<String, Entry>,
    dirs: BTreeSet<String>,
    log: Mutex<Vec<Value>>,
    canon: bool,
}

fn norm(p: &Path) -> String {
    let mut out: Vec<String> = Vec::new();
    let mut abs = false;
    for c in p.components() {
        match c {
            Component::RootDir => abs = true,
            Component::CurDir => {}
            Component::ParentDir => {
                if out.last().map_or(false, |l| l != "..") {
                    out.pop();
                } else {
                    out.push("..".into());
                }
            }
            Component::Normal(s) => out.push(s.to_string_lossy().into_owned()),
            Component::Prefix(_) => {}
        }
    }
    let s = out.join("/");
    if abs {
        format!("/{}", s)
    } else {
        s
    }
}

impl MemFs {
    fn new(files: &Value, dirs: &Value, canon: bool) -> MemFs {
        let mut f = BTreeMap::new();
        let mut d = BTreeSet::new();
        if let Some(m) = files.as_object() {
            for (k, v) in m {
                let e = match v {
                    Value::String(s) => Entry::Bytes(s.clone().into_bytes()),
                    Value::Object(o) => {
                        if let Some(h) = o.get("hex").and_then(|h| h.as_str()) {
                            Entry::Bytes(unhex(h))
                        } else {
                            Entry::IoErr
                        }
                    }
                    _ => Entry::IoErr,
                };
                let n = norm(Path::new(k));
                let mut p = Path::new(&n).parent();
                while let Some(pp) = p {
                    let s = pp.to_string_lossy().into_owned();
                    if s.is_empty() {
                        break;
                    }
                    d.insert(s);
                    p = pp.parent();
                }
                f.insert(n, e);
            }
        }
        if let Some(a) = dirs.as_array() {
            for x in a {
                if let Some(s) = x.as_str() {
                    d.insert(norm(Path::new(s)));
                }
            }
        }
        MemFs {
            files: f,
            dirs: d,
            log: Mutex::new(Vec::new()),
            canon,
        }
    }
    fn rec(&self, op: &str, path: &Path, ans: Value) {
        self.log
            .lock()
            .unwrap()
            .push(json!({"op": op, "path": path.to_string_lossy(), "norm": norm(path), "ans": ans}));
    }
}

impl grass::Fs for MemFs {
    fn is_dir(&self, path: &Path) -> bool {
        let a = self.dirs.contains(&norm(path));
        self.rec("is_dir", path, json!(a));
        a
    }
    fn is_file(&self, path: &Path) -> bool {
        let a = self.files.contains_key(&norm(path));
        self.rec("is_file", path, json!(a));
        a
    }
    fn read(&self, path: &Path) -> io::Result<Vec<u8>> {
        match self.files.get(&norm(path)) {
            Some(Entry::Bytes(b)) => {
                self.rec("read", path, json!("ok"));
                Ok(b.clone())
            }
            Some(Entry::IoErr) => {
                self.rec("read", path, json!("ioerr"));
                Err(io::Error::new(io::ErrorKind::PermissionDenied, "denied"))
            }
            None => {
                self.rec("read", path, json!("missing"));
                Err(io::Error::new(io::ErrorKind::NotFound, "not found"))
            }
        }
    }
    fn canonicalize(&self, path: &Path) -> io::Result<PathBuf> {
        self.rec("canonicalize", path, json!(self.canon));
        if self.canon {
            Ok(PathBuf::from(norm(path)))
        } else {
            Ok(path.to_path_buf())
        }
    }
}

fn unhex(h: &str) -> Vec<u8> {
    let b = h.as_bytes();
    let mut out = Vec::with_capacity(b.len() / 2);
    let mut i = 0;
    while i + 1 < b.len() {
        let s = std::str::from_utf8(&b[i..i + 2]).unwrap_or("00");
        out.push(u8::from_str_radix(s, 16).unwrap_or(0));
        i += 2;
    }
    out
}

// ---------------------------------------------------------------- Logger

#[derive(Debug, Default)]
struct CollectLogger {
    log: RefCell<Vec<Value>>,
}

fn loc_json(kind: &str, l: &SpanLoc, m: &str) -> Value {
    json!({"kind": kind, "msg": m, "file": l.file.name(),
           "line": l.begin.line + 1, "col": l.begin.column + 1,
           "eline": l.end.line + 1, "ecol": l.end.column + 1})
}

impl grass::Logger for CollectLogger {
    fn debug(&self, location: SpanLoc, message: &str) {
        self.log
            .borrow_mut()
            .push(loc_json("debug", &location, message));
    }
    fn warn(&self, location: SpanLoc, message: &str) {
        self.log
            .borrow_mut()
            .push(loc_json("warn", &location, message));
    }
}

// ---------------------------------------------------------------- one compilation

fn gb(c: &Value, k: &str, d: bool) -> bool {
    c.get(k).and_then(|v| v.as_bool()).unwrap_or(d)
}

fn panic_msg(p: Box<dyn std::any::Any + Send>) -> String {
    if let Some(s) = p.downcast_ref::<&str>() {
        (*s).to_string()
    } else if let Some(s) = p.downcast_ref::<String>() {
        s.clone()
    } else {
        "panic".to_string()
    }
}

fn compile_one(c: &Value) -> Value {
    let mut r = Map::new();
    let files = c.get("files").cloned().unwrap_or(Value::Null);
    let dirs = c.get("dirs").cloned().unwrap_or(Value::Null);
    let fs_kind = c
        .get("fs")
        .and_then(|v| v.as_str())
        .unwrap_or("mem")
        .to_string();
    let memfs = MemFs::new(&files, &dirs, gb(c, "canon", true));
    let logger = CollectLogger::default();
    let logger_kind = c
        .get("logger")
        .and_then(|v| v.as_str())
        .unwrap_or("collect")
        .to_string();

    let mut o = grass::Options::default();
    o = match fs_kind.as_str() {
        "std" => o,
        "null" => o.fs(&grass::NullFs),
        _ => o.fs(&memfs),
    };
    o = match logger_kind.as_str() {
        "std" => o,
        "null" => o.logger(&grass::NullLogger),
        _ => o.logger(&logger),
    };
    o = match c.get("syntax").and_then(|v| v.as_str()) {
        Some("scss") => o.input_syntax(grass::InputSyntax::Scss),
        Some("sass") => o.input_syntax(grass::InputSyntax::Sass),
        Some("css") => o.input_syntax(grass::InputSyntax::Css),
        _ => o,
    };
    if c.get("style").and_then(|v| v.as_str()) == Some("compressed") {
        o = o.style(grass::OutputStyle::Compressed);
    }
    o = o
        .quiet(gb(c, "quiet", false))
        .unicode_error_messages(gb(c, "unicode", true))
        .allows_charset(gb(c, "charset", true));
    if let Some(lp) = c.get("load_paths").and_then(|v| v.as_array()) {
        for p in lp {
            if let Some(s) = p.as_str() {
                o = o.load_path(s);
            }
        }
    }
    let trace = gb(c, "trace", false);

    #[cfg(grass_verif)]
    if trace {
        grass::verif::start();
    }
    let _ = trace;

    let t0 = std::time::Instant::now();
    let res = catch_unwind(AssertUnwindSafe(|| {
        if let Some(entry) = c.get("entry").and_then(|v| v.as_str()) {
            grass::from_path(entry, &o)
        } else if let Some(h) = c.get("src_hex").and_then(|v| v.as_str()) {
            // entry-point bytes that may not be UTF-8: the public route for bytes is
            // from_path through the supplied Fs
            let mut f2 = MemFs::new(&files, &dirs, gb(c, "canon", true));
            f2.files
                .insert("entry.scss".to_string(), Entry::Bytes(unhex(h)));
            let o2 = grass::Options::default().fs(&f2).logger(&logger);
            let o2 = match c.get("syntax").and_then(|v| v.as_str()) {
                Some("sass") => o2.input_syntax(grass::InputSyntax::Sass),
                Some("css") => o2.input_syntax(grass::InputSyntax::Css),
                _ => o2.input_syntax(grass::InputSyntax::Scss),
            };
            grass::from_path("entry.scss", &o2)
        } else {
            let src = c.get("src").and_then(|v| v.as_str()).unwrap_or("");
            grass::from_string(src.to_string(), &o)
        }
    }));
    let us = t0.elapsed().as_micros() as u64;

    #[cfg(grass_verif)]
    if trace {
        let ev = grass::verif::take();
        r.insert(
            "scope".into(),
            Value::Array(ev.into_iter().map(Value::String).collect()),
        );
    }

    match res {
        Ok(Ok(css)) => {
            r.insert("outcome".into(), json!("css"));
            r.insert(
                "utf8".into(),
                json!(std::str::from_utf8(css.as_bytes()).is_ok()),
            );
            r.insert("css".into(), json!(css));
        }
        Ok(Err(e)) => {
            r.insert("outcome".into(), json!("error"));
            let rendered = catch_unwind(AssertUnwindSafe(|| e.to_string()));
            match rendered {
                Ok(s) => {
                    r.insert("rendered".into(), json!(s));
                }
                Err(p) => {
                    r.insert("render_panic".into(), json!(panic_msg(p)));
                }
            }
            let k = catch_unwind(AssertUnwindSafe(|| (*e).clone().kind()));
            match k {
                Ok(grass::ErrorKind::ParseError {
                    message,
                    loc,
                    unicode,
                }) => {
                    let src = loc.file.source();
                    let nlines = src.split('\n').count();
                    let line_len = |l: usize| -> i64 {
                        if l < nlines {
                            loc.file.source_line(l).chars().count() as i64
                        } else {
                            -1
                        }
                    };
                    r.insert(
                        "err".into(),
                        json!({"kind": "parse", "message": message, "file": loc.file.name(),
                           "bline": loc.begin.line + 1, "bcol": loc.begin.column + 1,
                           "eline": loc.end.line + 1, "ecol": loc.end.column + 1,
                           "nlines": nlines, "blen": line_len(loc.begin.line), "elen": line_len(loc.end.line),
                           "srclen": src.len(), "unicode": unicode}),
                    );
                }
                Ok(grass::ErrorKind::IoError(e)) => {
                    r.insert(
                        "err".into(),
                        json!({"kind": "io", "message": e.to_string()}),
                    );
                }
                Ok(grass::ErrorKind::FromUtf8Error(s)) => {
                    r.insert("err".into(), json!({"kind": "utf8", "message": s}));
                }
                Ok(_) => {
                    r.insert("err".into(), json!({"kind": "other"}));
                }
                Err(p) => {
                    r.insert("kind_panic".into(), json!(panic_msg(p)));
                }
            }
        }
        Err(p) => {
            r.insert("outcome".into(), json!("panic"));
            r.insert("panic".into(), json!(panic_msg(p)));
        }
    }
    r.insert("us".into(), json!(us));
    r.insert("log".into(), Value::Array(logger.log.borrow().clone()));
    let fslog = memfs.log.lock().unwrap().clone();
    if !fslog.is_empty() || fs_kind == "mem" {
        r.insert("fs".into(), Value::Array(fslog));
    }
    Value::Object(r)
}

// a compact fingerprint of a result for purity comparisons
fn fingerprint(r: &Value) -> Value {
    json!({"outcome": r.get("outcome"), "css": r.get("css"), "rendered": r.get("rendered"),
           "panic": r.get("panic"), "log": r.get("log")})
}

fn run_case(c: &Value) -> Value {
    let op = c.get("op").and_then(|v| v.as_str()).unwrap_or("compile");
    match op {
        "history" if c.get("fresh_thread").and_then(|v| v.as_bool()).unwrap_or(false) => {
            // the whole history runs on a brand-new OS thread: thread-local state (the interner)
            // starts empty, so the listed prior jobs are exactly the thread's history
            let mut c2 = c.clone();
            c2.as_object_mut().unwrap().remove("fresh_thread");
            let h = std::thread::Builder::new()
                .stack_size(128 << 20)
                .spawn(move || run_case(&c2))
                .unwrap();
            match h.join() {
                Ok(v) => v,
                Err(_) => json!({"outcome": "panic", "panic": "history thread died"}),
            }
        }
        "history" => {
            // prior jobs run first on this very thread (thread-local interner keeps
            // their history), then the observed job
            let mut priors = Vec::new();
            if let Some(p) = c.get("prior").and_then(|v| v.as_array()) {
                for pc in p {
                    priors.push(fingerprint(&compile_one(pc)));
                }
            }
            let job = c.get("job").cloned().unwrap_or(Value::Null);
            let mut r = compile_one(&job);
            r.as_object_mut()
                .unwrap()
                .insert("priors".into(), Value::Array(priors));
            r
        }
        "threads" => {
            // jobs[i] is a list of jobs for thread i; all threads are released by a barrier
            let jobs: Vec<Vec<Value>> = c
                .get("jobs")
                .and_then(|v| v.as_array())
                .map(|a| {
                    a.iter()
                        .map(|x| x.as_array().cloned().unwrap_or_default())
                        .collect()
                })
                .unwrap_or_default();
            let n = jobs.len();
            let barrier = Arc::new(Barrier::new(n.max(1)));
            let mut hs = Vec::new();
            for tj in jobs {
                let b = Arc::clone(&barrier);
                hs.push(
                    std::thread::Builder::new()
                        .stack_size(64 << 20)
                        .spawn(move || {
                            b.wait();
                            tj.iter()
                                .map(|j| fingerprint(&compile_one(j)))
                                .collect::<Vec<_>>()
                        })
                        .unwrap(),
                );
            }
            let mut out = Vec::new();
            for h in hs {
                match h.join() {
                    Ok(v) => out.push(Value::Array(v)),
                    Err(_) => out.push(json!("thread-panic")),
                }
            }
            json!({"outcome": "threads", "results": out})
        }
        _ => compile_one(c),
    }
}

fn main() {
    let args: Vec<String> = std::env::args().collect();
    if args.len() < 3 {
        eprintln!("usage: gworker <cases.ndjson> <results.ndjson> [skip]");
        std::process::exit(2);
    }
    let skip: usize = args.get(3).and_then(|s| s.parse().ok()).unwrap_or(0);
    let input = BufReader::new(File::open(&args[1]).expect("open cases"));
    let mut out = OpenOptions::new()
        .create(true)
        .append(true)
        .open(&args[2])
        .expect("open results");
    let stdio_path = format!("{}.stdio", &args[2]);
    let mut stdio = OpenOptions::new()
        .create(true)
        .append(true)
        .read(true)
        .open(&stdio_path)
        .expect("open stdio");
    unsafe {
        dup2(stdio.as_raw_fd(), 1);
        dup2(stdio.as_raw_fd(), 2);
    }
    // panics are data: keep the default hook quiet so that panic text does not count as
    // bytes written by the library
    std::panic::set_hook(Box::new(|_| {}));

    // run on a big stack so deep (but bounded) recursion in inputs is not confused with a defect
    let h = std::thread::Builder::new()
        .stack_size(256 << 20)
        .spawn(move || {
            for (i, line) in input.lines().enumerate() {
                let line = match line {
                    Ok(l) => l,
                    Err(_) => break,
                };
                if i < skip || line.trim().is_empty() {
                    continue;
                }
                let c: Value = match serde_json::from_str(&line) {
                    Ok(v) => v,
                    Err(e) => {
                        let _ = writeln!(out, "{}", json!({"idx": i, "outcome": "badcase", "msg": e.to_string()}));
                        continue;
                    }
                };
                let before = stdio.seek(SeekFrom::End(0)).unwrap_or(0);
                let mut r = run_case(&c);
                let _ = io::stdout().flush();
                let after = stdio.seek(SeekFrom::End(0)).unwrap_or(before);
                let m = r.as_object_mut().unwrap();
                m.insert("idx".into(), json!(i));
                if let Some(id) = c.get("id") {
                    m.insert("id".into(), id.clone());
                }
                if after > before {
                    let mut buf = vec![0u8; (after - before).min(4096) as usize];
                    let _ = stdio.seek(SeekFrom::Start(before));
                    let _ = stdio.read(&mut buf);
                    m.insert("stdio".into(), json!(String::from_utf8_lossy(&buf)));
                    m.insert("stdio_bytes".into(), json!(after - before));
                }
                let _ = writeln!(out, "{}", r);
                let _ = out.flush();
            }
        })
        .unwrap();
    let _ = h.join();
}
