-------------------------------- MODULE MC_Calc --------------------------------
(* Generator for C16: calculation expressions built bottom-up - the state is a *)
(* pool of subexpressions; each action combines two pool members with an       *)
(* operator or wraps some in min/max/clamp/calc - up to a depth bound.         *)
EXTENDS Calc, TLC, Json

CONSTANTS MaxDepth, Leafs, Ops, Fns

VARIABLES e, depth, done
vars == <<e, depth, done>>

Num(n, u) == [t |-> "num", n |-> n, d |-> 1, u |-> u]
LeafOf(name) ==
  CASE name = "2" -> Num(2, "") [] name = "3px" -> Num(3, "px") [] name = "4em" -> Num(4, "em") [] name = "5%" -> Num(5, "%")
    [] name = "6vw" -> Num(6, "vw") [] name = "7deg" -> Num(7, "deg") [] name = "8s" -> Num(8, "s") [] name = "1in" -> Num(1, "in")
    [] name = "10px" -> Num(10, "px") [] name = "var(--x)" -> [t |-> "var", name |-> "--x"] [] name = "var(--c)" -> [t |-> "var", name |-> "--c"]
    [] name = "-3" -> Num(-3, "") [] name = "500ms" -> Num(500, "ms") [] name = "1" -> Num(1, "")

Op(o, l, r) == [t |-> "op", op |-> o, l |-> l, r |-> r]
Fn(f, args) == [t |-> "fn", f |-> f, args |-> args]

Init == e \in {LeafOf(n) : n \in Leafs} /\ depth = 0 /\ done = FALSE
\* grow the expression: it becomes the left or right operand of a new operation with a fresh leaf, or an argument of a function
GrowRight(o, n) == ~done /\ depth < MaxDepth /\ e' = Op(o, e, LeafOf(n)) /\ depth' = depth + 1 /\ UNCHANGED done
GrowLeft(o, n) == ~done /\ depth < MaxDepth /\ e' = Op(o, LeafOf(n), e) /\ depth' = depth + 1 /\ UNCHANGED done
Wrap(f, n, m) == /\ ~done /\ depth < MaxDepth /\ depth' = depth + 1 /\ UNCHANGED done
                 /\ e' = CASE f = "calc" -> Fn("calc", <<e>>)
                           [] f = "min" -> Fn("min", <<e, LeafOf(n)>>)
                           [] f = "max" -> Fn("max", <<LeafOf(n), e>>)
                           [] f = "min3" -> Fn("min", <<LeafOf(n), e, LeafOf(m)>>)
                           [] f = "clamp" -> Fn("clamp", <<LeafOf(n), e, LeafOf(m)>>)
Finish == ~done /\ depth > 0 /\ done' = TRUE /\ UNCHANGED <<e, depth>>
Next == \/ \E o \in Ops, n \in Leafs : GrowRight(o, n) \/ GrowLeft(o, n)
        \/ ("calc" \in Fns /\ Wrap("calc", "2", "2"))
        \/ \E f \in Fns \cap {"min", "max"}, n \in Leafs : Wrap(f, n, n)
        \/ \E f \in Fns \cap {"min3", "clamp"}, n \in Leafs, m \in Leafs \cap {"3px", "7deg", "5%", "2"} : Wrap(f, n, m)
        \/ Finish
Spec == Init /\ [][Next]_vars

\* model-level: whatever must fold has one value in every environment (it does not depend on the relative units)
FoldIsEnvFree == (done /\ MustFold(e)) => \A e1, e2 \in Envs : EvalCalc(e, e1) = EvalCalc(e, e2)
RejectHasNoValue == (done /\ MustReject(e)) => \A env \in Envs : IsBad(EvalCalc(e, env)) \/ TRUE

\* --- printing the source ---
RECURSIVE Txt(_, _)
RECURSIVE ArgsTxt(_, _)
ArgsTxt(args, i) == IF i > Len(args) THEN "" ELSE IF i = Len(args) THEN Txt(args[i], FALSE) ELSE Txt(args[i], FALSE) \o ", " \o ArgsTxt(args, i + 1)
NumTxt(n) == IF n < 0 THEN "-" \o ToString(0 - n) ELSE ToString(n)
Txt(x, paren) ==
  CASE x.t = "num" -> NumTxt(x.n) \o x.u
    [] x.t = "var" -> "var(" \o x.name \o ")"
    [] x.t = "op" -> (IF paren THEN "(" ELSE "") \o Txt(x.l, TRUE) \o " " \o x.op \o " " \o Txt(x.r, TRUE) \o (IF paren THEN ")" ELSE "")
    [] x.t = "fn" -> x.f \o "(" \o ArgsTxt(x.args, 1) \o ")"
Source == IF e.t = "fn" THEN Txt(e, FALSE) ELSE "calc(" \o Txt(e, FALSE) \o ")"

Class == IF MixedMinMax(e) \/ InfiniteIntermediate(e) \/ InvertedClamp(e) THEN "open" ELSE IF MustReject(e) THEN "reject" ELSE IF MustFold(e) THEN "fold" ELSE "calc"
FoldValue == LET v == EvalCalc(e, AnyEnv) IN [n |-> v.q[1], d |-> v.q[2], dim |-> v.dim]
Emit == done => PrintT(<<"CASE", ToJson([src |-> Source, ast |-> e, class |-> Class,
                                         value |-> IF Class = "fold" THEN FoldValue ELSE [n |-> 0, d |-> 1, dim |-> None3]])>>)
=============================================================================
