---------------------------- MODULE Trace_Selectors ----------------------------
(* One event per call of a selector function (C11), carrying the operands (as   *)
(* generated) and the result grass returned (parsed by the checker).  Each kind  *)
(* of event is explained by the matching relation it must satisfy over every     *)
(* element of every DOM of the bounded universe.                                *)
EXTENDS Selectors, TLC, Json, IOUtils

VARIABLES l
Rec == ndJsonDeserialize(IOEnv.TRACE)

Allowed(r) ==
  CASE r.k = "super" -> (r.answer => Subsumes(r.a, r.b))                  \* true only if every element matched by B is matched by A
    [] r.k = "superself" -> r.answer                                       \* reflexive
    [] r.k = "unify" -> (r.isnull \/ WithinBoth(r.out, r.a, r.b))          \* only elements matched by both
    [] r.k = "same" -> SameMeaning(r.a, r.out)                             \* parse+print / nest / append / extend vs @extend
    [] OTHER -> FALSE

Init == l = 1
Observe == l <= Len(Rec) /\ (Allowed(Rec[l]) = TRUE) /\ l' = l + 1
Reject  == /\ l <= Len(Rec) /\ (Allowed(Rec[l]) = FALSE)
           /\ PrintT(<<"REJECT", ToJson([id |-> Rec[l].id])>>) /\ l' = l + 1
Next == Observe \/ Reject
Spec == Init /\ [][Next]_l
Consumed == (TLCGet("stats").diameter - 1 = Len(Rec)) \/ Print(<<"NOTE", "trace not consumed">>, FALSE)
=============================================================================
