-------------------------------- MODULE Strings --------------------------------
(* The string functions over code points (C14).  A string is a sequence of     *)
(* code-point labels (small integers; the checker maps them to ASCII,          *)
(* two-byte, combining and astral characters), so positions are code-point     *)
(* positions by construction.                                                  *)
EXTENDS Integers, Sequences

Min(a, b) == IF a < b THEN a ELSE b
Max(a, b) == IF a > b THEN a ELSE b

\* 0-based code-point offset for a 1-based / negative Sass index
Offset(i, len, allowNegative) ==
  IF i = 0 THEN 0 ELSE IF i > 0 THEN Min(i - 1, len)
  ELSE IF len + i < 0 /\ ~allowNegative THEN 0 ELSE len + i

Slice(s, start, end) ==
  IF end = 0 THEN <<>>
  ELSE LET len == Len(s)
           a == Offset(start, len, FALSE)
           e0 == Offset(end, len, TRUE)
           e == IF e0 = len THEN len - 1 ELSE e0
       IN IF e < a THEN <<>> ELSE SubSeq(s, a + 1, e + 1)

IndexOfSub(s, sub) ==
  LET S == {i \in 1..(Len(s) - Len(sub) + 1) : SubSeq(s, i, i + Len(sub) - 1) = sub}
  IN IF S = {} THEN 0 ELSE CHOOSE i \in S : \A j \in S : i <= j

Insert(s, ins, index) ==
  LET len == Len(s)
      i1 == IF index < 0 THEN Max(len + index + 2, 0) ELSE index
      at == Offset(i1, len, FALSE)
  IN SubSeq(s, 1, at) \o ins \o SubSeq(s, at + 1, len)

\* string.split: the pieces between successive non-overlapping occurrences of sep, scanning left to right; at most `limit`
\* separators are used (limit = 0: no bound); an empty separator splits into code points; the empty string has no pieces
RECURSIVE Split(_, _, _)
Split(s, sep, limit) ==
  IF s = <<>> THEN <<>>
  ELSE IF sep = <<>> THEN [i \in 1..Len(s) |-> <<s[i]>>]
  ELSE LET at == IndexOfSub(s, sep) IN
       IF at = 0 THEN <<s>>
       ELSE LET rest == SubSeq(s, at + Len(sep), Len(s)) IN
            <<SubSeq(s, 1, at - 1)>> \o (IF limit = 1 THEN <<rest>>
                                         ELSE IF rest = <<>> THEN << <<>> >>
                                         ELSE Split(rest, sep, IF limit = 0 THEN 0 ELSE limit - 1))
RECURSIVE JoinWith(_, _)
JoinWith(parts, sep) == IF parts = <<>> THEN <<>> ELSE IF Len(parts) = 1 THEN parts[1] ELSE parts[1] \o sep \o JoinWith(Tail(parts), sep)

\* laws of the definitions
SplitJoin(s, sep) == (s # <<>> /\ sep # <<>>) => JoinWith(Split(s, sep, 0), sep) = s     \* splitting loses nothing
SplitLimit(s, sep, k) == (k >= 1 /\ s # <<>> /\ sep # <<>>) => Len(Split(s, sep, k)) <= k + 1
SliceWhole(s) == Slice(s, 1, -1) = s
SliceConcat(s, k) == (k >= 1 /\ k <= Len(s)) => Slice(s, 1, k) \o Slice(s, k + 1, -1) = s
InsertLen(s, ins, i) == Len(Insert(s, ins, i)) = Len(s) + Len(ins)
=============================================================================
