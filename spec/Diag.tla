-------------------------------- MODULE Diag --------------------------------
(* What a diagnostic must look like (C19): error records are located inside  *)
(* the file they name and render; logger deliveries are the executed         *)
(* @debug/@warn directives in program order, where a @warn may be omitted    *)
(* only if the same directive already delivered the same message.            *)
EXTENDS Integers, Sequences, FiniteSets

\* e: [kind, message, file, bline, bcol, eline, ecol, nlines, blen, elen]; files: names known to the compilation
WellLocated(e, files) ==
  /\ e.file \in files
  /\ e.bline >= 1 /\ e.bline <= e.nlines
  /\ e.eline >= e.bline /\ e.eline <= e.nlines
  /\ e.bcol >= 1 /\ e.bcol <= e.blen + 1
  /\ e.ecol >= 1 /\ e.ecol <= e.elen + 1
  /\ (e.eline = e.bline => e.ecol >= e.bcol)

\* the rendered text exists and starts with "Error: <message>"
Prefix(s, p) == Len(s) >= Len(p) /\ SubSeq(s, 1, Len(p)) = p
RenderedOk(rendered, message) == Prefix(rendered, "Error: " \o message)

\* expected / observed deliveries: sequences of <<kind, msg, line, file>>
SameDirective(a, b) == a[1] = b[1] /\ a[3] = b[3] /\ a[4] = b[4]

\* can exp[i..] be delivered as obs[j..]?  A delivery may be skipped only when it is a @warn whose
\* (directive, message) was already seen among exp[1..i-1].
RECURSIVE Deliver(_, _, _, _)
Deliver(exp, obs, i, j) ==
  IF i > Len(exp) THEN j > Len(obs)
  ELSE LET e == exp[i]
           dup == e[1] = "warn" /\ \E k \in 1..(i - 1) : SameDirective(exp[k], e) /\ exp[k][2] = e[2]
       IN \/ (j <= Len(obs) /\ obs[j] = e /\ Deliver(exp, obs, i + 1, j + 1))
          \/ (dup /\ Deliver(exp, obs, i + 1, j))

LogOk(exp, obs, quiet) == IF quiet THEN obs = <<>> ELSE Deliver(exp, obs, 1, 1)
=============================================================================
