---------------------------- MODULE Trace_Imports ----------------------------
(* One event per compilation of a generated layout: the Fs calls the         *)
(* implementation made (recorded by the harness's in-memory Fs), which       *)
(* file's marker rule reached the output and with which syntax, or the error. *)
(* The event is explained only if it is what ImportSearch allows.             *)
EXTENDS ImportSearch, TLC, Json, IOUtils

VARIABLES l
Rec == ndJsonDeserialize(IOEnv.TRACE)
ToSet(s) == {s[i] : i \in 1..Len(s)}

\* every existence test / read concerns a candidate of this search (or the entry file itself)
Confined(r) ==
  \A i \in 1..Len(r.fs) :
    LET c == r.fs[i] IN
      IF c.op = "is_dir" THEN c.norm \in ToSet(r.dirtests) \cup ToSet(r.confinement)
      ELSE IF c.op = "read" THEN c.norm \in {r.resolved, r.resolved2} \cup ToSet(r.entry)
      ELSE c.norm \in ToSet(r.confinement) \cup ToSet(r.entry)

ResultOk(r) ==
  IF r.plaincss THEN
       /\ r.outcome = "css" /\ r.hasimportrule /\ r.markers = <<>>
       /\ \A i \in 1..Len(r.fs) : r.fs[i].norm \in ToSet(r.entry)         \* nothing is looked up
  ELSE IF r.resolved = "" THEN
       /\ r.outcome = "error" /\ r.errfile = r.importerfile /\ r.errline = 1   \* an error at the import site
  ELSE IF r.two /\ r.resolved2 = "" THEN
       /\ r.outcome = "error" /\ r.errfile = "sub/_go.scss" /\ r.errline = 1   \* the second search fails, at its own site
  ELSE /\ r.outcome = "css"
       /\ r.markers = r.expectmarkers                                     \* those files, in load order, nothing else
       /\ r.syntaxseen = r.expectsyntax                                   \* each parsed by its own extension

Allowed(r) == Confined(r) /\ ResultOk(r)

Init == l = 1
Observe == l <= Len(Rec) /\ (Allowed(Rec[l]) = TRUE) /\ l' = l + 1
Reject  == /\ l <= Len(Rec) /\ (Allowed(Rec[l]) = FALSE)
           /\ PrintT(<<"REJECT", ToJson([id |-> Rec[l].id, confined |-> Confined(Rec[l]), result |-> ResultOk(Rec[l])])>>)
           /\ l' = l + 1
Next == Observe \/ Reject
Spec == Init /\ [][Next]_l
Consumed == (TLCGet("stats").diameter - 1 = Len(Rec)) \/ Print(<<"NOTE", "trace not consumed">>, FALSE)
=============================================================================
