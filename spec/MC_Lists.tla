-------------------------------- MODULE MC_Lists --------------------------------
(* The list functions as a machine (C14): the state is an abstract list and    *)
(* the SassScript expression that denotes it; each action applies one          *)
(* function (append, join, set-nth) to the current list; when done, the        *)
(* observing functions are evaluated on the result.                            *)
EXTENDS Lists, TLC, Json, FiniteSets

CONSTANTS MaxOps, UseModule     \* UseModule: spell functions through sass:list

VARIABLES cur, expr, nops, done, bad
vars == <<cur, expr, nops, done, bad>>

\* starting lists: <<expression, abstract list>>
Starts == { <<"a", L(<<"a">>, "undecided", FALSE)>>, <<"()", L(<<>>, "undecided", FALSE)>>, <<"(a b)", L(<<"a", "b">>, "space", FALSE)>>,
            <<"(a, b)", L(<<"a", "b">>, "comma", FALSE)>>, <<"(a,)", L(<<"a">>, "comma", FALSE)>>, <<"[a]", L(<<"a">>, "undecided", TRUE)>>,
            <<"[a b]", L(<<"a", "b">>, "space", TRUE)>>, <<"[a, b]", L(<<"a", "b">>, "comma", TRUE)>>, <<"[]", L(<<>>, "undecided", TRUE)>>,
            <<"(a b c)", L(<<"a", "b", "c">>, "space", FALSE)>> }
Seconds == { <<"(c, d)", L(<<"c", "d">>, "comma", FALSE)>>, <<"(c d)", L(<<"c", "d">>, "space", FALSE)>>, <<"c", L(<<"c">>, "undecided", FALSE)>>,
             <<"[c]", L(<<"c">>, "undecided", TRUE)>>, <<"()", L(<<>>, "undecided", FALSE)>>, <<"(c,)", L(<<"c">>, "comma", FALSE)>> }
Fn(n) == IF UseModule THEN "list." \o n ELSE n

Init == \E s \in Starts : cur = s[2] /\ expr = s[1] /\ nops = 0 /\ done = FALSE /\ bad = FALSE

DoAppend(sep) == /\ ~done /\ nops < MaxOps
                 /\ cur' = AppendL(cur, "z", sep)
                 /\ expr' = Fn("append") \o "(" \o expr \o ", z" \o (IF sep = "auto" THEN "" ELSE ", $separator: " \o sep) \o ")"
                 /\ nops' = nops + 1 /\ UNCHANGED <<done, bad>>
DoJoin(s, sep, br) == /\ ~done /\ nops < MaxOps
                      /\ cur' = JoinL(cur, s[2], sep, br)
                      /\ expr' = Fn("join") \o "(" \o expr \o ", " \o s[1] \o (IF sep = "auto" THEN "" ELSE ", $separator: " \o sep)
                                  \o (IF br = "auto" THEN "" ELSE ", $bracketed: " \o br) \o ")"
                      /\ nops' = nops + 1 /\ UNCHANGED <<done, bad>>
DoJoinLeft(s) == /\ ~done /\ nops < MaxOps
                 /\ cur' = JoinL(s[2], cur, "auto", "auto")
                 /\ expr' = Fn("join") \o "(" \o s[1] \o ", " \o expr \o ")"
                 /\ nops' = nops + 1 /\ UNCHANGED <<done, bad>>
DoSetNth(n) == /\ ~done /\ nops < MaxOps
               /\ IF Idx(n, Len(cur.items)) = 0 THEN bad' = TRUE /\ cur' = cur ELSE cur' = SetNth(cur, n, "w") /\ bad' = bad
               /\ expr' = Fn("set-nth") \o "(" \o expr \o ", " \o ToString(n) \o ", w)"
               /\ nops' = nops + 1 /\ UNCHANGED done
Finish == ~done /\ done' = TRUE /\ UNCHANGED <<cur, expr, nops, bad>>
Next == \/ \E sep \in {"auto", "comma", "space"} : DoAppend(sep)
        \/ \E s \in Seconds, sep \in {"auto", "comma", "space"}, br \in {"auto", "true", "false"} :
              (sep = "auto" \/ br = "auto") /\ DoJoin(s, sep, br)
        \/ \E s \in Seconds : DoJoinLeft(s)
        \/ \E n \in {1, 2, -1, 0, 4} : DoSetNth(n)
        \/ Finish
Spec == Init /\ [][Next]_vars

\* model-level laws
LawLen == ~bad => Len(cur.items) >= 0
Emit == done => PrintT(<<"CASE", ToJson([expr |-> expr, error |-> bad,
            inspect |-> Inspect(cur), length |-> Len(cur.items), sep |-> SeparatorName(cur), br |-> cur.br,
            nth1 |-> Nth(cur, 1), nthm1 |-> Nth(cur, -1), nth2 |-> Nth(cur, 2), nth0 |-> Nth(cur, 0), nth9 |-> Nth(cur, 9), nthm9 |-> Nth(cur, -9),
            idxz |-> IndexOf(cur, "z"), idxa |-> IndexOf(cur, "a")])>>)
=============================================================================
