------------------------------ MODULE MC_Style ------------------------------
(* Generator for C06: a value and a place where SassScript turns it into     *)
(* text (or otherwise lets evaluation depend on how it would be printed).     *)
(* The expectation is relational: nothing observable but formatting may       *)
(* differ between the two output styles - Eval.tla has no style parameter.    *)
EXTENDS Naturals, Sequences, TLC, Json

VARIABLES stage, val, ctxk
vars == <<stage, val, ctxk>>

\* <<source text, class>>
Values == {<<"0.5", "frac">>, <<"-0.5", "frac">>, <<"0.05", "frac">>, <<"1.5", "num">>, <<"3", "num">>, <<"10px", "num">>,
           <<"0.5em", "frac">>, <<"math.div(1, 3)", "frac">>, <<"red", "color">>, <<"#ff0000", "color">>, <<"#f00", "color">>,
           <<"#abcdef", "color">>, <<"rgba(1, 2, 3, 0.5)", "color">>, <<"blue", "color">>, <<"(a, b)", "commalist">>,
           <<"(a b)", "spacelist">>, <<"(0.5, red)", "commalist">>, <<"\"q s\"", "string">>, <<"ident", "string">>,
           <<"null", "other">>, <<"true", "other">>, <<"1 + 1", "num">>, <<"(1 2) (3 4)", "spacelist">>, <<"[a, b]", "commalist">>}

\* how the value is used; V stands for the value's source text
Contexts == {"strlen", "concat-left", "concat-right", "cmp-interp", "selector", "propname", "debug", "debug-interp", "if-strlen",
             "str-index", "upper", "slice", "warn", "inspect", "media", "url", "comment", "comment-effect", "quote-interp",
             "map-key", "unique", "plain", "each-interp", "function-name", "important", "custom-prop", "supports"}

Init == stage = 1 /\ val = <<"", "">> /\ ctxk = ""
PickValue(v) == stage = 1 /\ val' = v /\ stage' = 2 /\ UNCHANGED ctxk
PickContext(c) == stage = 2 /\ ctxk' = c /\ stage' = 3 /\ UNCHANGED val
Next == (\E v \in Values : PickValue(v)) \/ (\E c \in Contexts : PickContext(c))
Spec == Init /\ [][Next]_vars

V == val[1]
Body ==
  CASE ctxk = "strlen" -> <<"a { b: str-length(\"#{$v}\"); }">>
    [] ctxk = "concat-left" -> <<"a { b: \"x\" + $v; c: str-length(\"x\" + $v); }">>
    [] ctxk = "concat-right" -> <<"a { b: $v + \"x\"; c: str-length($v + \"x\"); }">>
    [] ctxk = "cmp-interp" -> <<"a { b: \"#{$v}\" == \"#{$v}\"; c: \"#{$v}\" == \"0.5\"; d: \"#{$v}\" == \"red\"; e: \"#{$v}\" == \"a, b\"; }">>
    [] ctxk = "selector" -> <<".x-#{$v} { p: q; }">>
    [] ctxk = "propname" -> <<"a { p-#{$v}: q; }">>
    [] ctxk = "debug" -> <<"@debug $v;", "a { b: c; }">>
    [] ctxk = "debug-interp" -> <<"@debug \"#{$v}\";", "@debug str-length(\"#{$v}\");", "a { b: c; }">>
    [] ctxk = "if-strlen" -> <<"a { @if str-length(\"#{$v}\") > 3 { b: long; } @else { b: short; } }">>
    [] ctxk = "str-index" -> <<"a { b: str-index(\"#{$v}\", \"0\"); c: str-index(\"#{$v}\", \" \"); d: str-index(\"#{$v}\", \"f\"); }">>
    [] ctxk = "upper" -> <<"a { b: to-upper-case(\"#{$v}\"); }">>
    [] ctxk = "slice" -> <<"a { b: str-slice(\"#{$v}\", 1, 2); c: str-slice(\"#{$v}\", -2); }">>
    [] ctxk = "warn" -> <<"@warn $v;", "@warn \"w #{$v}\";", "a { b: c; }">>
    [] ctxk = "inspect" -> <<"a { b: inspect($v); c: str-length(inspect($v)); }">>
    [] ctxk = "media" -> <<"@media (w: #{$v}) { a { b: c; } }">>
    [] ctxk = "url" -> <<"a { b: url(x#{$v}); }">>
    [] ctxk = "comment" -> <<"/* c #{$v} */", "a { b: c; }">>
    [] ctxk = "comment-effect" -> <<"$n: 0;", "@function f() { $n: $n + 1 !global; @return $n; }", "/* #{f()} #{$v} */", "/*! #{f()} */",
                                    "a { n: $n; }">>
    [] ctxk = "quote-interp" -> <<"a { b: quote(\"#{$v}\"); c: unquote(\"#{$v}\") + \"\"; }">>
    [] ctxk = "map-key" -> <<"$m: (\"#{$v}\": 1, \"0.5\": 2);">>  \o <<"a { b: inspect($m); }">>
    [] ctxk = "unique" -> <<"a { b: index(\"#{$v}\" \"0.5\" \".5\" \"red\" \"#f00\", \"#{$v}\"); }">>
    [] ctxk = "plain" -> <<"a { b: $v; c: $v $v; d: ($v, $v); }">>
    [] ctxk = "each-interp" -> <<"@each $c in str-slice(\"#{$v}\", 1, 1), str-length(\"#{$v}\") { .e-#{$c} { p: q; } }">>
    [] ctxk = "function-name" -> <<"a { b: fn-#{$v}(1); }">>
    [] ctxk = "important" -> <<"a { b: $v !important; }">>
    [] ctxk = "custom-prop" -> <<"a { --c: #{$v}; --d:   x  \"  |  \"   y ; --e: \"a\tb\"; }">>
    [] ctxk = "supports" -> <<"@supports (p: #{$v}) { a { b: c; } }">>

Program == <<"@use \"sass:math\";", "$v: " \o V \o ";">> \o Body

Emit == stage = 3 => PrintT(<<"CASE", ToJson([scss |-> Program, vclass |-> val[2], ctx |-> ctxk])>>)
=============================================================================
