---------------------------- MODULE ModuleGraph ----------------------------
(* The module system as the property states it (C12), over a three-file      *)
(* project: an entry file, module m1 and module m2.                          *)
(*   m2 : $a2 (!default), $-p2 (private), $c2 (not configurable), f2(), mx2,  *)
(*        one marker rule, one @debug "load m2"                              *)
(*   m1 : optionally @use / @forward m2 (decorated), then $a1 (!default),     *)
(*        $-p1, f1() = $a1, g1() = m2.$a2 (when it uses m2), mx1, marker,     *)
(*        @debug "load m1"                                                   *)
(*   entry : optionally @use m2 (before or after), @use m1 (decorated), one   *)
(*        probe.                                                              *)
(* Decorations                                                                *)
(*   e1  = [ns, with]         ns in {"m1","n","*"}; with in {"none","a1","c1","zz","a2"} *)
(*   e12 = [k, show, prefix, with]  k in {"none","use","fwd"}; show in {"all","show-a2","show-f2","hide-a2"} *)
(*   e2  = [pos, spell]       pos in {"none","before","after"}                *)
EXTENDS Naturals, Sequences, FiniteSets

\* Named deviations: what the implementation is known to do instead (known_findings.jsonl).
\*   "D_fwd_with_on_loaded_module_ignored": when m1 itself is loaded with an explicit `with`, its
\*   `@forward "m2" with (...)` of an ALREADY LOADED m2 is accepted and silently has no effect.
Dev(devs, e1, e12, e2) == "D_fwd_with_on_loaded_module_ignored" \in devs /\ e12.k = "fwd" /\ e12.with = "a2"
                          /\ e2.pos = "before" /\ e1.with = "a1"

\* --- visibility through @forward "m2" ---------------------------------------
VarShown(e12)  == e12.k = "fwd" /\ e12.show \in {"all", "show-a2"}
FnShown(e12)   == e12.k = "fwd" /\ e12.show \in {"all", "show-f2", "hide-a2"}
MixShown(e12)  == e12.k = "fwd" /\ e12.show \in {"all", "hide-a2"}

\* --- configuration ------------------------------------------------------------
\* where $a2 gets a configured value from
A2Configured(e1, e12) == e12.with = "a2" \/ (e1.with = "a2" /\ VarShown(e12))
A2D(devs, e1, e12, e2) == IF A2Configured(e1, e12) /\ ~Dev(devs, e1, e12, e2) THEN "c2" ELSE "v2"
A1(e1) == IF e1.with = "a1" THEN "c1" ELSE "v1"

\* errors raised while loading, before any probe runs
LoadError(devs, e1, e12, e2) ==
  \/ e1.with = "c1"                                        \* not a !default variable
  \/ e1.with = "zz"                                        \* no such variable
  \/ (e1.with = "a2" /\ ~VarShown(e12))                    \* m1 does not expose $a2 for configuration
  \/ (e12.with = "a2" /\ e2.pos = "before" /\ ~Dev(devs, e1, e12, e2))   \* m2 was already loaded when m1 configures it

\* --- load order (first load wins; every module is evaluated once) ---------------
M1Loads(e12) == IF e12.k = "none" THEN <<"m1">> ELSE <<"m2", "m1">>
LoadOrder(e12, e2) ==
  CASE e2.pos = "before" -> <<"m2", "m1">>
    [] e2.pos = "after"  -> IF e12.k = "none" THEN <<"m1", "m2">> ELSE <<"m2", "m1">>
    [] OTHER -> M1Loads(e12)

\* --- probes --------------------------------------------------------------------
\* result: [k |-> "val", v |-> text] or [k |-> "err"]
Val(v) == [k |-> "val", v |-> v]
Err == [k |-> "err"]

Probe(devs, p, e1, e12, e2) ==
  LET A2(x, y) == A2D(devs, x, y, e2) IN
  CASE p = "a1"      -> Val(A1(e1))                              \* N.$a1
    [] p = "f1"      -> Val(A1(e1))                              \* N.f1()
    [] p = "mx1"     -> Val("mx1-" \o A1(e1))                    \* @include N.mx1
    [] p = "priv1"   -> Err                                      \* N.$-p1 : private members are unreachable
    [] p = "fwd-a2"  -> IF VarShown(e12) THEN Val(A2(e1, e12)) ELSE Err      \* N.$<prefix>a2
    [] p = "fwd-f2"  -> IF FnShown(e12) THEN Val(A2(e1, e12))                \* N.<prefix>f2()
                        ELSE IF e1.ns = "*" THEN Val(e12.prefix \o "f2()")    \* un-namespaced unknown function = plain CSS function
                        ELSE Err
    [] p = "fwd-mx2" -> IF MixShown(e12) THEN Val("mx2-" \o A2(e1, e12)) ELSE Err
    [] p = "fwd-priv2" -> Err                                    \* N.$<prefix>-p2 / never visible
    [] p = "fwd-unprefixed" -> IF VarShown(e12) /\ e12.prefix = "" THEN Val(A2(e1, e12)) ELSE Err  \* N.$a2 without the prefix
    [] p = "set-a1"  -> Val("new")                               \* N.$a1: new; N.f1() sees it
    [] p = "diamond" -> Val("new")                               \* m2.$a2: new (entry's view); N.g1() (m1's view) sees it
    [] p = "unused-ns" -> Err                                    \* a member read without its namespace
    [] p = "none" -> Val("x")

\* probes need a context to make sense
ProbeOk(p, e1, e12, e2) ==
  CASE p \in {"fwd-a2", "fwd-f2", "fwd-mx2", "fwd-priv2"} -> e12.k = "fwd"
    [] p = "fwd-unprefixed" -> e12.k = "fwd" /\ e12.prefix # ""
    [] p = "diamond" -> e12.k = "use" /\ e2.pos # "none"
    [] p = "unused-ns" -> e1.ns # "*"
    [] OTHER -> TRUE

Expect(devs, p, e1, e12, e2) ==
  IF LoadError(devs, e1, e12, e2) THEN [k |-> "err", loads |-> <<>>]
  ELSE LET r == Probe(devs, p, e1, e12, e2) IN
       IF r.k = "err" THEN [k |-> "err", loads |-> LoadOrder(e12, e2)]
       ELSE [k |-> "val", v |-> r.v, loads |-> LoadOrder(e12, e2),
             m1 |-> A1(e1),
             m2 |-> A2D(devs, e1, e12, e2) \o (IF e12.k = "fwd" THEN "" ELSE "/w2")]    \* m2's own $a1 is never configured from outside
=============================================================================
