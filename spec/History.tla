------------------------------- MODULE History -------------------------------
(* C02: a compilation's result is a function of the job (source, options,    *)
(* visible files) alone.  Threads run jobs one after another; each thread    *)
(* keeps a history (what it compiled before - the thread-local interner      *)
(* makes that history physically present in the implementation), threads of  *)
(* one process run concurrently.  canon[j] is the result of job j in a fresh *)
(* process.  The only way a compilation may end is with canon[j].            *)
EXTENDS Naturals, Sequences, FiniteSets

CONSTANTS Jobs, Threads, MaxHist, NoJob

VARIABLES running, hist, finished
vars == <<running, hist, finished>>

Init == /\ running = [t \in Threads |-> NoJob]
        /\ hist = [t \in Threads |-> <<>>]
        /\ finished = {}                       \* set of <<thread, history before, job>> triples completed

Start(t, j) == /\ running[t] = NoJob /\ Len(hist[t]) < MaxHist
               /\ running' = [running EXCEPT ![t] = j] /\ UNCHANGED <<hist, finished>>

\* r is what the implementation answered; the specification only admits the canonical answer
Finish(t, j, r, canon) ==
  /\ running[t] = j /\ r = canon[j]
  /\ running' = [running EXCEPT ![t] = NoJob]
  /\ finished' = finished \cup {<<t, hist[t], j>>}
  /\ hist' = [hist EXCEPT ![t] = Append(@, j)]

\* the abstract machine, used for enumeration of histories and schedules (canon is irrelevant there)
NextAbstract == \E t \in Threads, j \in Jobs :
                  \/ Start(t, j)
                  \/ (running[t] = j /\ Finish(t, j, j, [x \in Jobs |-> x]))
SpecAbstract == Init /\ [][NextAbstract]_vars

\* every thread history is a sequence of jobs that were each finished on that thread in that order
HistoryConsistent == \A t \in Threads : \A i \in 1..Len(hist[t]) :
                        <<t, SubSeq(hist[t], 1, i - 1), hist[t][i]>> \in finished
=============================================================================
