---------------------------- MODULE Trace_Scopes ----------------------------
(* Validates the scope events recorded by the hooks in evaluate/scope.rs and *)
(* evaluate/env.rs (cfg grass_verif) against Scopes.  State rebuilt from the *)
(* trace: the depth of every live scope stack.  One event = one action.      *)
(*   stack(s, from, len)   a stack is created (from = 0: fresh, else copied) *)
(*   enter(s, len) / exit(s, len)                                            *)
(*   get / find (s, n, r, in, len)   lookup of n answered r                  *)
(*   envins(s, n, i, in, g, semi, len)  assignment of n went to frame i       *)
(*   insl(s, n, i, len)    binding of a loop variable / parameter            *)
(*   reset(case)           next compilation                                  *)
EXTENDS Scopes, TLC, Json, IOUtils

VARIABLES l, depth, skip, cur
Rec == ndJsonDeserialize(IOEnv.TRACE)

ToSet(s) == {s[i] : i \in 1..Len(s)}

Known(s) == s \in DOMAIN depth

Explained(r) ==
  CASE r.e = "stack" -> IF r.from = 0 THEN r.len = 1
                        ELSE Known(r.from) => r.len = depth[r.from]       \* a closure copies the frame list
    [] r.e = "enter" -> Known(r.s) /\ r.len = depth[r.s] + 1 /\ r.vlen = r.len
    [] r.e = "exit"  -> Known(r.s) /\ r.len = depth[r.s] - 1 /\ r.len >= 1 /\ r.vlen = r.len
    [] r.e \in {"get", "find"} ->
         /\ Known(r.s) /\ r.len = depth[r.s]
         /\ \A i \in ToSet(r.in) : i >= 0 /\ i < r.len
         /\ r.r = Resolve(ToSet(r.in))
    [] r.e = "envins" ->
         /\ Known(r.s) /\ r.len = depth[r.s]
         /\ r.i = AssignTarget(ToSet(r.in), r.len, r.g, r.semi)
    [] r.e = "insl" -> Known(r.s) /\ r.len = depth[r.s] /\ r.i = r.len - 1
    [] OTHER -> FALSE

NewDepth(r) ==
  CASE r.e = "stack" -> (r.s :> r.len) @@ depth
    [] r.e \in {"enter", "exit"} -> (r.s :> r.len) @@ depth
    [] OTHER -> depth

Init == l = 1 /\ depth = <<>> /\ skip = FALSE /\ cur = 0

Reset == /\ l <= Len(Rec) /\ Rec[l].e = "reset"
         /\ depth' = <<>> /\ skip' = FALSE /\ cur' = Rec[l].case /\ l' = l + 1
Step  == /\ l <= Len(Rec) /\ Rec[l].e # "reset" /\ ~skip /\ Explained(Rec[l])
         /\ depth' = NewDepth(Rec[l]) /\ l' = l + 1 /\ UNCHANGED <<skip, cur>>
Reject == /\ l <= Len(Rec) /\ Rec[l].e # "reset" /\ ~skip /\ ~Explained(Rec[l])
          /\ PrintT(<<"REJECT", ToJson([case |-> cur, line |-> l, event |-> Rec[l]])>>)
          /\ skip' = TRUE /\ l' = l + 1 /\ UNCHANGED <<depth, cur>>
Skip  == /\ l <= Len(Rec) /\ Rec[l].e # "reset" /\ skip
         /\ l' = l + 1 /\ UNCHANGED <<depth, skip, cur>>

Next == Reset \/ Step \/ Reject \/ Skip
Spec == Init /\ [][Next]_<<l, depth, skip, cur>>

Consumed == (TLCGet("stats").diameter - 1 = Len(Rec)) \/ Print(<<"NOTE", "trace not consumed">>, FALSE)
=============================================================================
