--------------------------------- MODULE Lists ---------------------------------
(* Sass lists as the list functions see them (C14): items, separator           *)
(* ("space", "comma", or "undecided" for lists of fewer than two elements      *)
(* written without a comma), brackets.  A bare value is a one-element          *)
(* undecided list.                                                             *)
EXTENDS Integers, Sequences

L(items, sep, br) == [items |-> items, sep |-> sep, br |-> br]

\* normalise an index: 1..n, -n..-1; 0 / out of range -> 0 (error)
Idx(n, len) == IF n >= 1 /\ n <= len THEN n ELSE IF n <= -1 /\ n >= -len THEN len + n + 1 ELSE 0

HasSep(l) == l.sep # "undecided"
EffSep(l) == IF HasSep(l) THEN l.sep ELSE "space"

Nth(l, n) == LET i == Idx(n, Len(l.items)) IN IF i = 0 THEN "<error>" ELSE l.items[i]
SetNth(l, n, v) == LET i == Idx(n, Len(l.items)) IN IF i = 0 THEN "<error>" ELSE [l EXCEPT !.items[i] = v]
\* append($list, $val, $separator: auto): the list's own separator if it has one, else space
AppendL(l, v, sep) == L(Append(l.items, v), IF sep = "auto" THEN EffSep(l) ELSE sep, l.br)
\* join($list1, $list2, $separator: auto, $bracketed: auto)
JoinL(a, b, sep, br) ==
  L(a.items \o b.items,
    IF sep # "auto" THEN sep ELSE IF HasSep(a) THEN a.sep ELSE IF HasSep(b) THEN b.sep ELSE "space",
    IF br = "auto" THEN a.br ELSE br = "true")
IndexOf(l, v) == LET S == {i \in 1..Len(l.items) : l.items[i] = v} IN IF S = {} THEN 0 ELSE CHOOSE i \in S : \A j \in S : i <= j
SeparatorName(l) == EffSep(l)

RECURSIVE JoinTxt(_, _, _)
JoinTxt(s, sep, i) == IF i > Len(s) THEN "" ELSE IF i = Len(s) THEN s[i] ELSE s[i] \o sep \o JoinTxt(s, sep, i + 1)
Inspect(l) ==
  LET body == IF Len(l.items) = 0 THEN (IF l.br THEN "" ELSE "()")
              ELSE IF Len(l.items) = 1 /\ l.sep = "comma" THEN (IF l.br THEN l.items[1] \o "," ELSE "(" \o l.items[1] \o ",)")
              ELSE JoinTxt(l.items, IF l.sep = "comma" THEN ", " ELSE " ", 1)
  IN IF l.br THEN "[" \o body \o "]" ELSE body

\* laws of the definitions
LenAppend(l, v) == Len(AppendL(l, v, "auto").items) = Len(l.items) + 1
JoinLen(a, b) == Len(JoinL(a, b, "auto", "auto").items) = Len(a.items) + Len(b.items)
=============================================================================
