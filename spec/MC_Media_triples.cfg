SPECIFICATION Spec
CONSTANTS
  MaxOuter = 1
  MaxInner = 1
  MaxMid = 1
  Spellings = {"lower"}
  Shapes = {0}
  WithOr = FALSE
  Small = TRUE
INVARIANTS PairSound ListSound EmptyIsRecognised Emit
CHECK_DEADLOCK FALSE
