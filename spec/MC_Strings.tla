------------------------------- MODULE MC_Strings -------------------------------
(* Enumerates strings over code-point labels and calls of str-length,          *)
(* str-slice, str-index and str-insert on them with indices on both sides of   *)
(* every boundary.                                                             *)
EXTENDS Strings, TLC, Json

CONSTANTS NAtoms, MaxLen, Range_     \* indices -Range_..Range_

VARIABLES s, fn, p1, p2, stage
vars == <<s, fn, p1, p2, stage>>
Init == s = <<>> /\ fn = "" /\ p1 = 0 /\ p2 = 0 /\ stage = 0
AddCp(c) == stage = 0 /\ Len(s) < MaxLen /\ s' = Append(s, c) /\ UNCHANGED <<fn, p1, p2, stage>>
PickFn(f) == stage = 0 /\ fn' = f /\ stage' = 1 /\ UNCHANGED <<s, p1, p2>>
PickP1(x) == stage = 1 /\ p1' = x /\ stage' = (IF fn \in {"slice", "split"} THEN 2 ELSE 3) /\ UNCHANGED <<s, fn, p2>>
PickP2(y) == stage = 2 /\ p2' = y /\ stage' = 3 /\ UNCHANGED <<s, fn, p1>>
Subs == << <<1>>, <<2>>, <<3>>, <<1, 2>>, <<>>, <<2, 3>>, <<4>> >>
Next == \/ \E c \in 1..NAtoms : AddCp(c)
        \/ \E f \in {"length", "slice", "slice1", "index", "insert", "split"} : PickFn(f)
        \/ (stage = 1 /\ fn \in {"slice", "slice1", "insert"} /\ \E x \in (0 - Range_)..Range_ : PickP1(x))
        \/ (stage = 1 /\ fn \in {"index", "split"} /\ \E x \in 1..Len(Subs) : PickP1(x))
        \/ (stage = 1 /\ fn = "length" /\ PickP1(0))
        \/ (fn = "slice" /\ \E y \in (0 - Range_)..Range_ : PickP2(y))
        \/ (fn = "split" /\ stage = 2 /\ \E y \in 0..2 : (Subs[p1] = <<>> => y = 0) /\ PickP2(y))   \* limit: 0 = none; a limit with an empty
                                                                                     \* separator is left open (reference unclear)
Spec == Init /\ [][Next]_vars

Laws == (\A i \in 1..Len(Subs) : SplitJoin(s, Subs[i]) /\ SplitLimit(s, Subs[i], 1) /\ SplitLimit(s, Subs[i], 2)) /\ SliceWhole(s) /\ (\A k \in 1..MaxLen : SliceConcat(s, k)) /\ (stage = 3 /\ fn = "insert" => InsertLen(s, <<9>>, p1))

Result == CASE fn = "length" -> [k |-> "int", v |-> Len(s)]
            [] fn = "slice" -> [k |-> "str", v |-> Slice(s, p1, p2)]
            [] fn = "slice1" -> [k |-> "str", v |-> Slice(s, p1, -1)]
            [] fn = "index" -> [k |-> "int", v |-> IndexOfSub(s, Subs[p1])]
            [] fn = "insert" -> [k |-> "str", v |-> Insert(s, <<9>>, p1)]
            [] fn = "split" -> [k |-> "list", v |-> Split(s, Subs[p1], p2)]
Emit == stage = 3 => PrintT(<<"CASE", ToJson([s |-> s, fn |-> fn, p1 |-> p1, p2 |-> p2,
                                             sub |-> IF fn \in {"index", "split"} THEN Subs[p1] ELSE <<>>, result |-> Result])>>)
=============================================================================
