------------------------------ MODULE Builtins ------------------------------
(* The built-in modules (sass:math, sass:color, sass:list, sass:map,           *)
(* sass:string, sass:selector, sass:meta) as modules in the sense of           *)
(* ModuleGraph: a fixed member set, reachable only through the namespace the   *)
(* @use rule gives (default = last URL component, `as n`, or `as *`), not      *)
(* configurable, variables not assignable.  Each member that has a global      *)
(* alias must behave exactly like that alias (C12, last clause).               *)
EXTENDS Naturals, Sequences, FiniteSets

\* <<module, member, global alias, argument texts>>
F(m, f, g, args) == [mod |-> m, member |-> f, alias |-> g, args |-> args]
Functions == {
  F("math", "ceil", "ceil", {"1.2", "-1.5px", "4"}), F("math", "floor", "floor", {"1.8", "-1.5px"}),
  F("math", "round", "round", {"1.5", "-2.5", "2.4px"}), F("math", "abs", "abs", {"-3", "3px", "-0.5em"}),
  F("math", "min", "min", {"1, 2", "3px, 1in", "5"}), F("math", "max", "max", {"1, 2", "3px, 1in", "5, 2, 9"}),
  F("math", "unit", "unit", {"1px", "2", "1px * 1em"}), F("math", "percentage", "percentage", {"0.5", "2", "1px"}),
  F("math", "is-unitless", "unitless", {"1", "1px"}), F("math", "compatible", "comparable", {"1px, 1in", "1px, 1s", "1, 1px"}),
  F("color", "red", "red", {"#102030", "blue"}), F("color", "green", "green", {"#102030"}), F("color", "blue", "blue", {"#102030", "1"}),
  F("color", "hue", "hue", {"#102030", "hsl(120, 50%, 50%)"}), F("color", "saturation", "saturation", {"#102030"}),
  F("color", "lightness", "lightness", {"#102030", "white"}), F("color", "alpha", "alpha", {"rgba(1, 2, 3, 0.4)", "#102030"}),
  F("color", "mix", "mix", {"red, blue", "red, blue, 25%", "red, 1"}), F("color", "invert", "invert", {"#102030", "#102030, 40%"}),
  F("color", "complement", "complement", {"#102030"}), F("color", "grayscale", "grayscale", {"#804020"}),
  F("color", "adjust", "adjust-color", {"#102030, $red: 5", "#102030, $lightness: 10%", "#102030, $alpha: -0.4", "#102030, $red: 5, $hue: 3"}),
  F("color", "scale", "scale-color", {"#102030, $red: 50%", "#102030, $lightness: -20%", "#102030, $foo: 1%"}),
  F("color", "change", "change-color", {"#102030, $blue: 7", "#102030, $hue: 90", "#102030, $alpha: 2"}),
  F("color", "ie-hex-str", "ie-hex-str", {"#102030", "rgba(1, 2, 3, 0.5)"}),
  F("selector", "append", "selector-append", {"\".a\", \".b\"", "\".a, .c\", \"-d\""}), F("selector", "nest", "selector-nest", {"\".a\", \"&:hover\"", "\".a .b\", \"c\""}),
  F("selector", "extend", "selector-extend", {"\".a .b\", \".b\", \".c\""}), F("selector", "replace", "selector-replace", {"\".a .b\", \".b\", \".c\""}),
  F("selector", "unify", "selector-unify", {"\".a\", \".b\"", "\"a\", \"b\""}), F("selector", "parse", "selector-parse", {"\".a  >  b\""}),
  F("selector", "is-superselector", "is-superselector", {"\".a\", \".a.b\"", "\".a.b\", \".a\""}),
  F("selector", "simple-selectors", "simple-selectors", {"\"a.b:c\""}),
  F("meta", "type-of", "type-of", {"1px", "(a: b)", "\"s\"", "null", "red", "()"}), F("meta", "inspect", "inspect", {"(a: b)", "\"s\"", "null", "1 2 (3 4)"}),
  F("meta", "variable-exists", "variable-exists", {"\"g\"", "\"nope\""}), F("meta", "global-variable-exists", "global-variable-exists", {"\"g\"", "\"nope\""}),
  F("meta", "function-exists", "function-exists", {"\"red\"", "\"uf\"", "\"nope\""}), F("meta", "mixin-exists", "mixin-exists", {"\"um\"", "\"nope\""}),
  F("meta", "feature-exists", "feature-exists", {"\"at-error\"", "\"nope\""}),
  F("meta", "call", "call", {"get-function(\"red\"), #102030", "get-function(\"uf\"), 4"}),
  F("list", "nth", "nth", {"1 2 3, -1", "1 2 3, 4"}), F("list", "separator", "list-separator", {"(1, 2)", "1"}),
  F("map", "get", "map-get", {"(a: 1), a", "(a: 1), b"}), F("map", "has-key", "map-has-key", {"(a: 1), a"}),
  F("string", "length", "str-length", {"\"abc\""}), F("string", "slice", "str-slice", {"\"abcd\", 2, -2"}) }

Modules == {f.mod : f \in Functions}
\* how the module is brought in: namespace used at the call site ("" for `as *`)
Uses == {"default", "renamed", "star"}
UseLine(m, u) == CASE u = "default" -> "@use \"sass:" \o m \o "\";"
                   [] u = "renamed" -> "@use \"sass:" \o m \o "\" as q;"
                   [] u = "star" -> "@use \"sass:" \o m \o "\" as *;"
Call(m, u, f, args) == (CASE u = "default" -> m \o "." [] u = "renamed" -> "q." [] u = "star" -> "") \o f \o "(" \o args \o ")"

\* misuse that must be an error: a member the module does not have, reaching it through the wrong namespace after a rename,
\* configuring a built-in module, assigning to one of its variables
Misuses == {"nomember", "oldnamespace", "configure", "assign", "unloaded"}
MisuseSheet(k) ==
  CASE k = "nomember" -> <<"@use \"sass:math\";", "a { r: math.nonexistent(1); }">>
    [] k = "oldnamespace" -> <<"@use \"sass:math\" as q;", "a { r: math.floor(1.5); }">>
    [] k = "configure" -> <<"@use \"sass:math\" with ($pi: 3);", "a { r: 1; }">>
    [] k = "assign" -> <<"@use \"sass:math\";", "math.$pi: 3;", "a { r: 1; }">>
    [] k = "unloaded" -> <<"a { r: math.$pi; }">>
=============================================================================
