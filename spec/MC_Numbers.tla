------------------------------- MODULE MC_Numbers -------------------------------
(* Generator for C07 on the decimal-exact fragment.  One case per behaviour:   *)
(* a category and its parameters are chosen by actions; the expectation is a    *)
(* set of admissible texts (two at an exact rounding tie).                      *)
EXTENDS Decimal, TLC, Json, FiniteSets

CONSTANTS Cats, Nums, Dens

VARIABLES stage, cat, a, b
vars == <<stage, cat, a, b>>

Init == stage = 0 /\ cat = "" /\ a = 0 /\ b = 0
PickCat(c) == stage = 0 /\ cat' = c /\ stage' = 1 /\ UNCHANGED <<a, b>>
PickA(x) == stage = 1 /\ a' = x /\ stage' = 2 /\ UNCHANGED <<cat, b>>
PickB(y) == stage = 2 /\ b' = y /\ stage' = 3 /\ UNCHANGED <<cat, a>>

\* --- tables for the non-arithmetic categories: index -> <<expression, expected texts>> -----------------
Lits == << <<"1e3", {"1000"}>>, <<"1.5e-3", {"0.0015"}>>, <<"1E2", {"100"}>>, <<".5e1", {"5"}>>, <<"12.50", {"12.5"}>>, <<"+5", {"5"}>>,
           <<"-0.0", {"0"}>>, <<"0.10", {"0.1"}>>, <<"1.0", {"1"}>>, <<"100.000", {"100"}>>, <<"0.00000000004", {"0"}>>,
           <<"0.00000000006", {"0.0000000001"}>>, <<"-0.00000000004", {"0"}>>, <<"1.99999999996", {"2"}>>, <<"1.99999999994", {"1.9999999999"}>>,
           <<"123456789.123456789", {"123456789.123456789", "123456789.123456791", "123456789.123456787"}>>,
           <<"1e-3", {"0.001"}>>, <<"2.5e+2", {"250"}>>, <<"1000000000000000000", {"1000000000000000000"}>>, <<"0.5 + 0.25", {"0.75"}>>,
           <<"0.1 + 0.2", {"0.3"}>>, <<"1.1 * 1.1", {"1.21"}>>, <<"0.3 - 0.1", {"0.2"}>>, <<"1 - 0.9", {"0.1"}>>, <<"100 * 1.1", {"110"}>>,
           <<"0.7 + 0.1", {"0.8"}>>, <<"3 * 0.1", {"0.3"}>>, <<"1.15 * 100", {"115"}>>, <<"-1.5 - 1.5", {"-3"}>>, <<"2.5 * -2", {"-5"}>> >>
Fuzzy == << <<"1 == 1.000000000001", {"true"}>>, <<"1 == 1.00000000002", {"false"}>>, <<"1 != 1.000000000001", {"false"}>>,
            <<"1 < 1.000000000001", {"false"}>>, <<"1 <= 0.999999999999", {"true"}>>, <<"1 > 0.999999999999", {"false"}>>,
            <<"1 >= 1.000000000001", {"true"}>>, <<"1 < 1.0000000002", {"true"}>>, <<"100 == 100.000000000001", {"true"}>>,
            <<"0.1 + 0.2 == 0.3", {"true"}>>, <<"math.div(1, 3) * 3 == 1", {"true"}>>, <<"nth(a b c, 2.000000000001)", {"b"}>>,
            <<"nth(a b c, 1.999999999999)", {"b"}>>, <<"nth(a b c, 2.0001)", {"error"}>>, <<"math.round(2.5)", {"3"}>>, <<"math.round(-2.5)", {"-3"}>>,
            <<"math.round(2.4999)", {"2"}>>, <<"math.ceil(2.0000000001)", {"3"}>>, <<"math.floor(-2.5)", {"-3"}>>, <<"math.ceil(-2.5)", {"-2"}>>,
            <<"math.abs(-2.5)", {"2.5"}>>, <<"math.floor(2.9)", {"2"}>>, <<"math.ceil(2.1)", {"3"}>>, <<"math.round(2.5px)", {"3px"}>>,
            <<"math.is-unitless(1)", {"true"}>>, <<"math.percentage(0.25)", {"25%"}>>, <<"math.percentage(math.div(1, 3))", {"33.3333333333%"}>>,
            <<"1.000000000001 == 1.000000000002", {"true"}>>, <<"index(1 2 3, 2.000000000001)", {"2"}>> >>
Mods == << <<"7 % 3", {"1"}>>, <<"-7 % 3", {"2"}>>, <<"7 % -3", {"-2"}>>, <<"-7 % -3", {"-1"}>>, <<"5.5 % 2", {"1.5"}>>, <<"-5.5 % 2", {"0.5"}>>,
           <<"5.5 % -2", {"-0.5"}>>, <<"6 % 3", {"0"}>>, <<"0 % 5", {"0"}>>, <<"1 % 0.25", {"0"}>>, <<"7.5 % 2.5", {"0"}>>, <<"3 % 5", {"3"}>>,
           <<"-3 % 5", {"2"}>>, <<"3 % -5", {"-2"}>>, <<"math.div(1, 0)", {"Infinity"}>>, <<"math.div(-1, 0)", {"-Infinity"}>>,
           <<"math.div(0, 0)", {"NaN"}>>, <<"10px % 3px", {"1px"}>>, <<"-10px % 3", {"2px"}>>, <<"1 % 0", {"NaN"}>>, <<"-0 + 0", {"0"}>> >>
\* laws of the real-valued functions that must hold as SassScript truths
Laws == << <<"math.pow(10, 2.000000000004) > 100", {"true"}>>, <<"math.pow(1000, 3 - 0.000000000003) < 1000000000", {"true"}>>,
           <<"math.pow(2, 10) == 1024", {"true"}>>, <<"math.pow(2, 0.5) == math.sqrt(2)", {"true"}>>, <<"math.sqrt(16)", {"4"}>>,
           <<"math.pow(math.sqrt(7), 2) == 7", {"true"}>>, <<"math.sin(0)", {"0"}>>, <<"math.cos(0)", {"1"}>>,
           <<"math.pow(math.sin(1), 2) + math.pow(math.cos(1), 2) == 1", {"true"}>>, <<"math.sin(math.div(math.$pi, 2)) == 1", {"true"}>>,
           <<"math.tan(math.div(math.$pi, 4)) == 1", {"true"}>>, <<"math.log(math.$e) == 1", {"true"}>>, <<"math.log(8, 2) == 3", {"true"}>>,
           <<"math.pow(9, 0.5)", {"3"}>>, <<"math.pow(2, -2)", {"0.25"}>>, <<"math.hypot(3, 4)", {"5"}>>, <<"math.pow(-8, 3)", {"-512"}>>,
           <<"math.sqrt(2) * math.sqrt(2) == 2", {"true"}>>, <<"math.acos(1)", {"0deg"}>>, <<"math.atan2(1, 1)", {"45deg"}>>,
           <<"math.pow(10, 2.5) > math.pow(10, 2.4999)", {"true"}>>, <<"math.pow(1.000001, 1000000) > 2.7", {"true"}>>,
           <<"math.pow(4, 1.5)", {"8"}>>, <<"math.cos(math.$pi) == -1", {"true"}>>, <<"math.pow(-8, 0.1 * 3 * 10) == -512", {"false"}>> >>

TableOf(c) == CASE c = "lit" -> Lits [] c = "fuzzy" -> Fuzzy [] c = "mod" -> Mods [] c = "laws" -> Laws
IsTable(c) == c \in {"lit", "fuzzy", "mod", "laws"}

Next == \/ \E c \in Cats : PickCat(c)
        \/ (stage = 1 /\ IsTable(cat) /\ \E i \in 1..Len(TableOf(cat)) : PickA(i))
        \/ (stage = 1 /\ ~IsTable(cat) /\ \E x \in Nums : PickA(x))
        \/ (stage = 2 /\ IsTable(cat) /\ PickB(0))
        \/ (stage = 2 /\ ~IsTable(cat) /\ \E y \in Dens : PickB(y))
Spec == Init /\ [][Next]_vars

\* --- math.div(a, b): the exact quotient printed to 10 digits --------------------------------
\* The printed text is the correctly rounded value of the DOUBLE nearest to the quotient.  Where the exact quotient is
\* closer to a rounding tie (in units of the 10th digit) than a double can resolve at its magnitude - |q| * 2^-52 / 1e-10,
\* bounded above by (|q| + 1) / 400000 - both neighbours are admissible.
NearTie(q) == LET n == Abs(q[1])  d == q[2]  rem == RemAfter(n % d, d, 10)
                  dist == IF 2 * rem > d THEN 2 * rem - d ELSE d - 2 * rem
              IN dist * 400000 <= d * ((n \div d) + 1)
QuotTexts(x, y, compressed) ==
  LET q == Q(x, y) IN IF NearTie(q) THEN {Text(q, "floor", compressed), Text(q, "ceil", compressed)} ELSE {Text(q, "half-up", compressed)}

Expr == IF IsTable(cat) THEN TableOf(cat)[a][1]
        ELSE IF cat = "div" THEN "math.div(" \o ToString(a) \o ", " \o ToString(b) \o ")"
        ELSE "math.div(-" \o ToString(a) \o ", " \o ToString(b) \o ")"
Expected(compressed) ==
  IF IsTable(cat) THEN TableOf(cat)[a][2]
  ELSE IF cat = "div" THEN QuotTexts(a, b, compressed) ELSE QuotTexts(-a, b, compressed)

\* model-level check: a printed quotient never has more than 10 fractional digits nor a trailing zero
PrintShape == (stage = 3 /\ ~IsTable(cat)) =>
                LET t == AbsText(Q(a, b), "half-up") IN Len(t.frac) <= 10 /\ (t.frac # <<>> => t.frac[Len(t.frac)] # 0)

Emit == stage = 3 => PrintT(<<"CASE", ToJson([expr |-> Expr, cat |-> cat, expanded |-> Expected(FALSE), compressed |-> Expected(TRUE)])>>)
=============================================================================
