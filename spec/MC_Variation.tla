---------------------------- MODULE MC_Variation ----------------------------
(* Insignificant source variations (C18), enumerated as descriptors that the *)
(* harness applies to a program given as a sequence of source lines:          *)
(*   nl     line terminator: "lf", "crlf", "cr", "ff"                         *)
(*   pad    "none" | "blank" (an empty line between all lines) |              *)
(*          "comment" (a silent comment line between all lines) |             *)
(*          "spaces" (trailing spaces / tabs at the end of every line)        *)
(*   prefix "none" | "bom" (U+FEFF first) | "charset" (@charset "UTF-8" first) *)
(*   swap   "mid": every second occurrence of a user-chosen name is spelled    *)
(*          with "_" where the others use "-" inside the name; "lead": the     *)
(*          same with the "-"/"_" as the first character of variable names     *)
(* Agree: all variants of one program produce the same CSS and the same        *)
(* logger messages, or all of them fail.                                       *)
EXTENDS Naturals, Sequences, TLC, Json

VARIABLES stage, d
Nls == {"lf", "crlf", "cr", "ff", "mixed"}      \* mixed: LF after the first line, then CRLF, CR, FF in rotation
Pads == {"none", "blank", "wsblank", "comment", "spaces"}   \* wsblank: the blank lines contain spaces and a tab
Prefixes == {"none", "bom", "charset"}

Init == stage = 0 /\ d = [nl |-> "lf", pad |-> "none", prefix |-> "none", swap |-> "none"]
Pick == /\ stage = 0 /\ stage' = 1
        /\ \E n \in Nls, p \in Pads, x \in Prefixes, s \in {"none", "mid", "lead"} : d' = [nl |-> n, pad |-> p, prefix |-> x, swap |-> s]
Spec == Init /\ [][Pick]_<<stage, d>>
Emit == stage = 1 => PrintT(<<"CASE", ToJson(d)>>)
=============================================================================
