------------------------------ MODULE Trace_Extend ------------------------------
(* One event per style rule of a compiled sheet (C10): the rule's original      *)
(* selector, the selector grass emitted for it (parsed by the checker; "gone"    *)
(* when the rule vanished) and the sheet's extensions.  Explained by element     *)
(* matching with extenders credited with their targets.                          *)
EXTENDS Selectors, TLC, Json, IOUtils

VARIABLES l
Rec == ndJsonDeserialize(IOEnv.TRACE)

RECURSIVE HasNot(_)
HasNotCmp(c) == Len(c.nots) > 0 \/ (\E i \in 1..Len(c.iss) : HasNot(c.iss[i]))
HasNot(sl) == \E i \in 1..Len(sl) : \E j \in 1..Len(sl[i]) : HasNotCmp(sl[i][j].cmp)

\* classes mentioned anywhere in a selector list
RECURSIVE ClassesOf(_)
ClassesOfCmp(c) == {c.cls[i] : i \in 1..Len(c.cls)} \cup UNION {ClassesOf(c.nots[i]) : i \in 1..Len(c.nots)} \cup UNION {ClassesOf(c.iss[i]) : i \in 1..Len(c.iss)}
ClassesOf(sl) == UNION {UNION {ClassesOfCmp(sl[i][j].cmp) : j \in 1..Len(sl[i])} : i \in 1..Len(sl)}
IsComplexList(sl) == \E i \in 1..Len(sl) : Len(sl[i]) > 1
\* Sass writes a complex extender in place of the target without omitting anything when no weaving is needed: the rule's own
\* selector has single-compound complexes only and no complex extender is itself extended (no second-round weaving)
\* classes mentioned inside the :not()/:is() arguments of a selector list's compounds
PseudoArgClasses(sl) == UNION {UNION {UNION {ClassesOf(sl[i][j].cmp.nots[k]) : k \in 1..Len(sl[i][j].cmp.nots)}
                                        \cup UNION {ClassesOf(sl[i][j].cmp.iss[k]) : k \in 1..Len(sl[i][j].cmp.iss)}
                                      : j \in 1..Len(sl[i])} : i \in 1..Len(sl)}
\* an extender that mentions another extension's target only inside a selector pseudo (':is(.x, b) {@extend %p}' with '.y {@extend .x}')
\* is not re-extended by the reference algorithm (extensions are indexed by the extender's top-level simple selectors): left open
PseudoChained(r) == \E i \in 1..Len(r.exts) : \E j \in 1..Len(r.exts) : r.exts[j].target \in PseudoArgClasses(r.exts[i].extender)
ExactDue(r) ==
  \/ (r.compoundonly /\ ~PseudoChained(r))
  \/ /\ ~IsComplexList(r.sel) /\ ~PseudoChained(r)
     /\ \A i \in 1..Len(r.exts) : IsComplexList(r.exts[i].extender) =>
           \A j \in 1..Len(r.exts) : r.exts[j].target \notin ClassesOf(r.exts[i].extender)

Out(r, dom, n) == IF r.gone THEN FALSE ELSE Matches(r.out, dom, n)

Allowed(r) ==
  \A dom \in ExtDoms :
    LET cr == Credit(dom, r.exts, 4) IN                              \* computed once per DOM
    \A n \in 1..Len(dom) :
    LET want == MatchList(r.sel, dom, n, cr)
        got == Out(r, dom, n)
    IN /\ ((HasNot(r.sel) /\ ~r.compoundonly) \/ (got => want))   \* never matches more than the credited original (a complex
                                                                   \* extender is not written into :not(), so that case is left open)
       /\ ((ExactDue(r) /\ ~(HasNot(r.sel) /\ ~r.compoundonly)) => (want => got))   \* where no interleaving is omitted: exactly that
       /\ ((~HasNot(r.sel) /\ Matches(r.sel, dom, n)) => got)       \* first law: what matched before still matches

Init == l = 1
Observe == l <= Len(Rec) /\ (Allowed(Rec[l]) = TRUE) /\ l' = l + 1
Reject  == /\ l <= Len(Rec) /\ (Allowed(Rec[l]) = FALSE)
           /\ PrintT(<<"REJECT", ToJson([id |-> Rec[l].id])>>) /\ l' = l + 1
Next == Observe \/ Reject
Spec == Init /\ [][Next]_l
Consumed == (TLCGet("stats").diameter - 1 = Len(Rec)) \/ Print(<<"NOTE", "trace not consumed">>, FALSE)
=============================================================================
