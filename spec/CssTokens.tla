------------------------------ MODULE CssTokens ------------------------------
(* Token-level view of emitted CSS (C05, C06, C18).  A token is <<class,      *)
(* text>>; the checker's tokenizer (vlib/csstok.py) produces the classes       *)
(*   ws comment str badstr badcomment ident func url at hash num dim pct       *)
(*   { } ( ) [ ] semi colon comma delim var placeholder amp interp bom          *)
(* Here: what a well-formed, Sass-free stream is, the charset rule, which      *)
(* values count as CSS-representable, and the formatting-only equivalence      *)
(* between the two output styles.                                              *)
EXTENDS Naturals, Sequences, FiniteSets

Cls(t) == t[1]
Txt(t) == t[2]

\* --- balanced blocks / parentheses / brackets, no broken strings or comments ---------------
Opener(c) == c \in {"{", "(", "["}
Closer(c) == c \in {"}", ")", "]"}
Partner(c) == CASE c = "}" -> "{" [] c = ")" -> "(" [] c = "]" -> "["

RECURSIVE Accept(_, _, _)
\* pushdown acceptor: stack of open brackets
Accept(toks, i, stack) ==
  IF i > Len(toks) THEN stack = <<>>
  ELSE LET c == Cls(toks[i]) IN
       IF c \in {"badstr", "badcomment"} THEN FALSE
       ELSE IF Opener(c) THEN Accept(toks, i + 1, Append(stack, c))
       ELSE IF Closer(c) THEN Len(stack) > 0 /\ stack[Len(stack)] = Partner(c)
                               /\ Accept(toks, i + 1, SubSeq(stack, 1, Len(stack) - 1))
       ELSE Accept(toks, i + 1, stack)
WellFormed(toks) == Accept(toks, 1, <<>>)

\* --- no Sass-only syntax -----------------------------------------------------------------
SassAtRules == {"@mixin", "@include", "@function", "@return", "@if", "@else", "@each", "@for", "@while", "@use",
                "@forward", "@extend", "@at-root", "@debug", "@warn", "@error", "@content"}
SassOnly(t) == Cls(t) \in {"var", "placeholder", "amp", "interp"} \/ (Cls(t) = "at" /\ Txt(t) \in SassAtRules)
SassFree(toks) == \A i \in 1..Len(toks) : ~SassOnly(toks[i])

\* --- @charset / BOM exactly when non-ASCII and allowed --------------------------------------
\* r: [nonascii, allow, compressed, hascharset, hasbom]
CharsetOk(r) ==
  /\ (r.hascharset \/ r.hasbom) = (r.nonascii /\ r.allow)
  /\ (r.hascharset => ~r.compressed)           \* expanded output declares @charset
  /\ (r.hasbom => r.compressed)                \* compressed output uses a byte-order mark

\* --- CSS-representable declaration values (the antecedent of C05): a whitelist ---------------
ValueCls == {"ws", "ident", "num", "dim", "pct", "str", "hash", "comma", "func", "url", "(", ")"}
Glue(t) == Cls(t) \in {"ws", "comma", "(", ")", "func"} \/ (Cls(t) = "delim" /\ Txt(t) \in {"/", "!"})
NotCssWords == {"null", "NaN", "Infinity", "-Infinity", "true", "false"}     \* SassScript words that re-read differently
CalcFns == {"calc", "min", "max", "clamp", "round", "mod", "rem", "sin", "cos", "tan", "abs", "sign", "log", "exp", "pow", "sqrt", "hypot"}
HasInterp(s) == \E i \in 1..(Len(s) - 1) : SubSeq(s, i, i + 1) = "#{"
\* Sass global functions that CSS does not also define: their name in the output means an unevaluated call or the inspect() text
\* of a function value, which plain CSS rejects and SCSS would evaluate
SassOnlyFns == {"get-function", "call", "unitless", "unit", "comparable", "lighten", "darken", "desaturate", "adjust-hue", "mix", "complement",
                "red", "green", "blue", "hue", "saturation", "lightness", "opacify", "transparentize", "fade-in", "fade-out", "percentage",
                "random", "length", "nth", "set-nth", "join", "append", "zip", "index", "list-separator", "is-bracketed", "map-get",
                "map-merge", "map-remove", "map-keys", "map-values", "map-has-key", "keywords", "feature-exists", "variable-exists",
                "global-variable-exists", "function-exists", "mixin-exists", "content-exists", "inspect", "type-of", "if", "unique-id",
                "quote", "unquote", "str-length", "str-insert", "str-index", "str-slice", "to-upper-case", "to-lower-case",
                "selector-nest", "selector-append", "selector-extend", "selector-replace", "selector-unify", "is-superselector",
                "simple-selectors", "selector-parse", "adjust-color", "scale-color", "change-color", "ie-hex-str"}
NonWs(toks) == SelectSeq(toks, LAMBDA t : Cls(t) # "ws")
RepresentableValue(toks) ==
  /\ Len(SelectSeq(toks, LAMBDA t : Cls(t) # "ws")) > 0
  /\ \A i \in 1..Len(toks) : Cls(toks[i]) = "func" => Txt(toks[i]) \notin SassOnlyFns
  /\ LET nw == NonWs(toks) IN ~(Cls(nw[1]) = "delim" /\ Txt(nw[1]) = "/") /\ ~(Cls(nw[Len(nw)]) = "delim" /\ Txt(nw[Len(nw)]) = "/")   \* a dangling slash
  /\ \A i \in 1..Len(toks) : Cls(toks[i]) \in ValueCls \/ (Cls(toks[i]) = "delim" /\ Txt(toks[i]) \in {"/", "!"})
  /\ \A i \in 1..Len(toks) : ~(Cls(toks[i]) = "ident" /\ Txt(toks[i]) \in NotCssWords)
  /\ \A i \in 1..Len(toks) : Cls(toks[i]) = "func" => Txt(toks[i]) \notin CalcFns            \* calculations: C16
  /\ \A i \in 1..Len(toks) : Cls(toks[i]) = "hash" => Len(Txt(toks[i])) \notin {5, 9}        \* #rgba / #rrggbbaa are re-spelled as rgba()
  /\ \A i \in 1..Len(toks) : Cls(toks[i]) = "str" => ~HasInterp(Txt(toks[i]))               \* "#{" inside a string is Sass syntax again
  /\ \A i \in 1..Len(toks) : Cls(toks[i]) = "(" => (i > 1 /\ Cls(toks[i - 1]) = "func")      \* no SassScript parentheses
  /\ \A i \in 1..Len(toks) : (Cls(toks[i]) = "delim" /\ Txt(toks[i]) = "!") =>
        (i < Len(toks) /\ Cls(toks[i + 1]) = "ident" /\ Txt(toks[i + 1]) = "important")
  /\ \A i \in 1..(Len(toks) - 1) : Glue(toks[i]) \/ Glue(toks[i + 1])         \* operands never abut ("1"-2 is an operation, not a value)
  /\ WellFormed(toks)

\* --- formatting-only equivalence of two token streams (C06) ---------------------------------
\* drop white space, non-preserved comments and the optional semicolon before "}" or at the end
Preserved(t) == Cls(t) = "comment" /\ Len(Txt(t)) >= 3 /\ SubSeq(Txt(t), 1, 3) = "/*!"
Keep(toks) == SelectSeq(toks, LAMBDA t : Cls(t) \notin {"ws", "bom"} /\ (Cls(t) = "comment" => Preserved(t)))
RECURSIVE DropOptSemi(_, _)
DropOptSemi(toks, i) ==
  IF i > Len(toks) THEN <<>>
  ELSE IF Cls(toks[i]) = "semi" /\ (i = Len(toks) \/ Cls(toks[i + 1]) \in {"}", "semi"}) THEN DropOptSemi(toks, i + 1)
  ELSE <<toks[i]>> \o DropOptSemi(toks, i + 1)
\* the charset declaration is formatting too: @charset "UTF-8"; (expanded) stands for the BOM (compressed)
StripCharset(toks) == IF Len(toks) >= 3 /\ Cls(toks[1]) = "at" /\ Txt(toks[1]) = "@charset" /\ Cls(toks[2]) = "str" /\ Cls(toks[3]) = "semi"
                      THEN SubSeq(toks, 4, Len(toks)) ELSE toks
Canon(toks) == DropOptSemi(StripCharset(Keep(toks)), 1)
StyleEquivalent(a, b) == Canon(a) = Canon(b)
=============================================================================
