-------------------------------- MODULE Decimal --------------------------------
(* Sass numbers on the decimal-exact fragment (C07): values are exact          *)
(* rationals; printing keeps at most 10 fractional digits, rounded half up on  *)
(* the exact value, no exponent, no trailing zeros, no "+", no "-0", and (in   *)
(* compressed mode) no leading zero.                                           *)
EXTENDS Rational, Sequences

Digit(n) == SubSeq("0123456789", n + 1, n + 1)
RECURSIVE NatTxt(_)
NatTxt(n) == IF n < 10 THEN Digit(n) ELSE NatTxt(n \div 10) \o Digit(n % 10)

\* long division: the first k fractional digits of r/d (0 <= r < d), as a sequence, and the remainder after them
RECURSIVE FracDigits(_, _, _)
FracDigits(r, d, k) == IF k = 0 THEN <<>> ELSE <<(r * 10) \div d>> \o FracDigits((r * 10) % d, d, k - 1)
RECURSIVE RemAfter(_, _, _)
RemAfter(r, d, k) == IF k = 0 THEN r ELSE RemAfter((r * 10) % d, d, k - 1)

\* add one unit in the last place to a digit sequence; returns <<carry, digits>>
RECURSIVE Inc(_, _)
Inc(ds, i) == IF i = 0 THEN <<1, ds>>
              ELSE IF ds[i] = 9 THEN Inc([ds EXCEPT ![i] = 0], i - 1) ELSE <<0, [ds EXCEPT ![i] = ds[i] + 1]>>

RECURSIVE TrimZeros(_)
TrimZeros(ds) == IF Len(ds) > 0 /\ ds[Len(ds)] = 0 THEN TrimZeros(SubSeq(ds, 1, Len(ds) - 1)) ELSE ds
RECURSIVE DigitsTxt(_, _)
DigitsTxt(ds, i) == IF i > Len(ds) THEN "" ELSE Digit(ds[i]) \o DigitsTxt(ds, i + 1)

\* text of |q| rounded to 10 fractional digits; up = round the tie/greater half up
AbsText(q, up) ==
  LET n == Abs(q[1])  d == q[2]
      ip == n \div d
      r == n % d
      ds == FracDigits(r, d, 10)
      rem == RemAfter(r, d, 10)
      \* up: "half-up" / "half-down" decide an exact tie; "floor" / "ceil" force the lower / upper neighbour
      roundup == CASE up = "floor" -> FALSE [] up = "ceil" -> TRUE
                   [] OTHER -> (2 * rem > d) \/ (2 * rem = d /\ up = "half-up")
      inc == IF roundup THEN Inc(ds, 10) ELSE <<0, ds>>
      ip2 == ip + inc[1]
      fs == TrimZeros(inc[2])
  IN [int |-> ip2, frac |-> fs]

IsTie(q) == LET n == Abs(q[1])  d == q[2] IN 2 * RemAfter(n % d, d, 10) = d

Text(q, up, compressed) ==
  LET a == AbsText(q, up)
      zero == a.int = 0 /\ a.frac = <<>>
      sign == IF q[1] < 0 /\ ~zero THEN "-" ELSE ""
  IN IF zero THEN "0"
     ELSE IF a.frac = <<>> THEN sign \o NatTxt(a.int)
     ELSE IF compressed /\ a.int = 0 THEN sign \o "." \o DigitsTxt(a.frac, 1)
     ELSE sign \o NatTxt(a.int) \o "." \o DigitsTxt(a.frac, 1)

\* model-level laws: the printed text re-read is within 5e-11 of the value, printing is idempotent on short decimals
Reread(q) == LET a == AbsText(q, "half-up") IN TRUE
=============================================================================
