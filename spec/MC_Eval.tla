------------------------------ MODULE MC_Eval ------------------------------
(* Generator for C03 (and, through the same cases, C18/C19/C05/C06/C01):     *)
(* programs are built one instruction per action, so every prefix is a state *)
(* and TLC enumerates all well-formed programs within the bounds.  When a    *)
(* program is finished the reference semantics (Eval) computes what must be  *)
(* observed and the program is printed as a case in both syntaxes.           *)
EXTENDS Eval, Render, Json

CONSTANTS MaxLen, MaxDepth, Profile, Fuel, WithImport,
          Steer      \* BOOLEAN: only read names that were introduced somewhere earlier

VARIABLES prog, open, lastClosed, done, declared,
          split,     \* instructions 1..split live in an imported file (0: single file)
          implast    \* TRUE: the entry file imports it at its END (so the library runs last)
vars == <<prog, open, lastClosed, done, declared, split, implast>>

Range(s) == {s[i] : i \in 1..Len(s)}

----------------------------------------------------------------------------
(* instruction constructors *)
I(n) == VInt(n)
V(x) == [t |-> "var", x |-> x]
Bin(op, l, r) == [t |-> "bin", op |-> op, l |-> l, r |-> r]
Flat(xs, ops) == [t |-> "flat", xs |-> xs, ops |-> ops]
Call(f, pos, named) == [t |-> "call", f |-> f, pos |-> pos, named |-> named]
ListX(items, sep) == [t |-> "listx", items |-> items, sep |-> sep]
MapX(pairs) == [t |-> "mapx", pairs |-> pairs]
Not(e) == [t |-> "not", e |-> e]

Decl(x, e, g, d) == [op |-> "decl", x |-> x, e |-> e, g |-> g, d |-> d]
Prop(p, e) == [op |-> "prop", p |-> p, e |-> e]
Debug(e) == [op |-> "debug", e |-> e]
Warn(e) == [op |-> "warn", e |-> e]
ErrorI(e) == [op |-> "error", e |-> e]
Rule(s) == [op |-> "rule", sel |-> s]
If(c) == [op |-> "if", c |-> c]
ElseIf(c) == [op |-> "elseif", c |-> c]
Else == [op |-> "else"]
For(x, a, b, incl) == [op |-> "for", x |-> x, from |-> a, to |-> b, incl |-> incl]
Each(xs, e) == [op |-> "each", xs |-> xs, e |-> e]
While(c) == [op |-> "while", c |-> c]
Prm(n) == [n |-> n, hasdef |-> FALSE, def |-> VNull]
PrmD(n, d) == [n |-> n, hasdef |-> TRUE, def |-> d]
Mixin(name, params, rest) == [op |-> "mixin", name |-> name, params |-> params, rest |-> rest]
Function(name, params, rest) == [op |-> "function", name |-> name, params |-> params, rest |-> rest]
Include(name, pos, named) == [op |-> "include", name |-> name, pos |-> pos, named |-> named, block |-> FALSE, using |-> <<>>]
IncludeB(name, pos, named, using) == [op |-> "include", name |-> name, pos |-> pos, named |-> named, block |-> TRUE, using |-> using]
Content(args) == [op |-> "content", args |-> args]
Return(e) == [op |-> "return", e |-> e]
End == [op |-> "end"]

----------------------------------------------------------------------------
(* menus *)
T == VBool(TRUE)
F == VBool(FALSE)

SimpleMenuOf(pf) ==
  CASE pf = "scope" ->
         {Decl("x", I(1), FALSE, FALSE), Decl("x", I(2), TRUE, FALSE), Decl("x", I(3), FALSE, TRUE),
          Debug(V("x")), Prop("p", V("x")), Include("m", <<>>, <<>>), Content(<<>>),
          Return(V("x")), Debug(Call("f", <<>>, <<>>))}
    [] pf = "closure" ->
         {Decl("x", I(1), FALSE, FALSE), Decl("x", I(2), FALSE, FALSE), Debug(V("x")), Include("m", <<>>, <<>>)}
    [] pf = "diag" ->
         {Decl("x", I(1), FALSE, FALSE), Debug(V("x")), Debug(V("i")), Warn(V("i")), Warn(VStr("w")), Warn(VQStr("q s")),
          Debug(VQStr("d")), Warn(ListX(<<I(1), VStr("a")>>, "comma")),
          ErrorI(V("i")), ErrorI(VQStr("boom")), ErrorI(ListX(<<I(1), I(2)>>, "space")), ErrorI(VStr("e")),
          Include("m", <<>>, <<>>), Debug(Call("f", <<>>, <<>>)), Return(I(5)), Prop("p", V("x"))}
    [] pf = "scope2" ->
         {Decl("x", I(1), FALSE, FALSE), Decl("y", V("x"), FALSE, FALSE), Decl("x", Bin("+", V("x"), I(1)), FALSE, FALSE),
          Decl("y", I(5), TRUE, FALSE), Decl("y", I(6), FALSE, TRUE),
          Debug(V("x")), Debug(V("y")), Include("m", <<>>, <<>>), Content(<<>>)}
    [] pf = "control" ->
         {Decl("x", I(0), FALSE, FALSE), Decl("x", Bin("+", V("x"), I(1)), FALSE, FALSE),
          Decl("x", Bin("+", V("x"), V("i")), FALSE, FALSE),
          Debug(V("x")), Debug(V("i")), Debug(V("j")), Return(V("i")), Return(V("x")), Debug(Call("f", <<>>, <<>>)),
          Prop("p", V("i"))}
    [] pf = "args" ->
         {Debug(V("a")), Debug(V("b")), Debug(V("r")), Decl("a", I(9), FALSE, FALSE), Decl("b", I(8), TRUE, FALSE),
          Include("m", <<>>, <<>>), Include("m", <<I(1)>>, <<>>), Include("m", <<I(1), I(2)>>, <<>>),
          Include("m", <<I(1), I(2), I(3)>>, <<>>), Include("m", <<I(1)>>, << <<"b", I(4)>> >>),
          Include("m", <<>>, << <<"b", I(4)>>, <<"a", I(5)>> >>), Include("m", <<I(1)>>, << <<"a", I(5)>> >>),
          Include("m", <<>>, << <<"z", I(5)>> >>), Include("m", <<V("a")>>, <<>>),
          Debug(Call("f", <<I(1)>>, <<>>)), Debug(Call("f", <<>>, << <<"a", I(2)>> >>)), Debug(Call("f", <<I(1), I(2)>>, <<>>)),
          Return(V("a")), Return(Bin("+", V("a"), V("b"))), Content(<<I(7)>>), Content(<<>>)}
    [] pf = "loopret" ->    \* @return leaves every enclosing loop at once; what follows in the loop is never executed
         {Return(V("i")), Return(V("x")), Debug(V("i")), Debug(Call("f", <<>>, <<>>)), Decl("x", I(0), FALSE, FALSE),
          Decl("x", Bin("+", V("x"), I(1)), FALSE, FALSE)}
    [] pf = "args2" ->      \* order of parameter binding: a default that names a LATER parameter reads the outer variable
         {Decl("b", I(8), TRUE, FALSE), Decl("a", I(9), FALSE, FALSE), Debug(V("a")), Debug(V("b")), Return(V("a")),
          Include("m", <<>>, << <<"b", I(4)>> >>), Include("m", <<>>, <<>>), Include("m", <<I(1)>>, <<>>),
          Include("m", <<>>, << <<"b", I(4)>>, <<"a", I(5)>> >>),
          Debug(Call("f", <<>>, << <<"b", I(2)>> >>)), Debug(Call("f", <<>>, <<>>)), Debug(Call("f", <<I(1)>>, << <<"b", I(2)>> >>))}
    [] pf = "ops" ->
         {Debug(Flat(<<I(1), V("x"), V("y")>>, <<"+", "*">>)), Debug(Flat(<<V("x"), V("y"), I(1)>>, <<"*", "+">>)),
          Debug(Flat(<<I(7), V("x"), V("y")>>, <<"-", "-">>)), Debug(Flat(<<I(7), V("y"), V("x")>>, <<"%", "*">>)),
          Debug(Flat(<<V("x"), I(2), V("y"), I(4)>>, <<"==", "or", "==">>)),
          Debug(Flat(<<V("x"), I(3), V("y"), I(3), F>>, <<"<", "and", "==", "or">>)),
          Debug(Flat(<<T, F, F>>, <<"or", "and">>)), Debug(Flat(<<F, T, T>>, <<"and", "or">>)),
          Debug(Flat(<<I(1), I(2), I(3), I(4)>>, <<"+", "<", "*">>)),
          Debug(Flat(<<I(1), I(1), T>>, <<"==", "==">>)), Debug(Flat(<<I(2), I(1), I(1)>>, <<">", "!=">>)),
          Debug(Bin("and", F, Call("f", <<>>, <<>>))), Debug(Bin("or", T, Call("f", <<>>, <<>>))),
          Debug(Bin("and", T, Call("f", <<>>, <<>>))), Debug(Bin("or", F, Call("f", <<>>, <<>>))),
          Debug(Not(Flat(<<V("x"), V("y")>>, <<"==">>))), Debug([t |-> "neg", e |-> V("x")]),
          Debug(Bin("+", VStr("a"), V("x"))), Debug(Bin("+", V("x"), VStr("a"))), Debug(Bin("+", VStr("a"), VStr("b"))),
          Prop("p", Bin("+", VQStr("a"), V("x"))), Prop("p", Bin("+", V("x"), VQStr("b"))),
          Debug([t |-> "ifx", c |-> Flat(<<V("x"), I(2)>>, <<"==">>), a |-> VStr("yes"), b |-> Call("f", <<>>, <<>>)]),
          Debug(Flat(<<VStr("a"), VStr("a")>>, <<"==">>)), Debug(Flat(<<VQStr("a"), VStr("a")>>, <<"==">>)),
          Debug(Flat(<<VNull, F>>, <<"==">>)), Debug(Not(VNull)), Debug(Flat(<<I(0), F>>, <<"or">>)),
          Decl("x", I(5), TRUE, FALSE)}
    [] OTHER -> {}

BlockMenuOf(pf) ==
  CASE pf = "scope" ->
         {Rule(".r"), If(T), Mixin("m", <<>>, ""), Function("f", <<>>, ""), IncludeB("m", <<>>, <<>>, <<>>)}
    [] pf = "closure" -> {Rule(".r"), Mixin("m", <<>>, ""), If(T)}
    [] pf = "diag" -> {Rule(".r"), Mixin("m", <<>>, ""), Function("f", <<>>, ""), For("i", I(1), I(3), TRUE),
                       Each(<<"i">>, ListX(<<VStr("u"), VStr("u"), VStr("v")>>, "space"))}
    [] pf = "scope2" ->
         {Rule(".r"), If(T), If(Bin("==", V("x"), I(1))), Mixin("m", <<>>, ""), IncludeB("m", <<>>, <<>>, <<>>),
          Each(<<"x">>, ListX(<<I(7), I(8)>>, "space"))}
    [] pf = "control" ->
         {Rule(".r"), If(Bin("==", V("i"), I(2))), If(Bin("<", V("x"), I(2))), ElseIf(Bin("==", V("i"), I(1))), Else,
          For("i", I(1), I(3), TRUE), For("i", I(1), I(3), FALSE), For("i", I(3), I(1), TRUE), For("i", I(2), I(2), FALSE),
          For("i", V("x"), I(2), TRUE),
          Each(<<"i">>, ListX(<<I(4), I(5)>>, "comma")), Each(<<"i", "j">>, ListX(<<ListX(<<I(1), I(2)>>, "space"), ListX(<<I(3)>>, "space"), I(9)>>, "comma")),
          Each(<<"i", "j">>, MapX(<< <<VStr("k"), I(1)>>, <<VStr("l"), I(2)>> >>)), Each(<<"i">>, I(6)),
          While(Bin("<", V("x"), I(2))), Function("f", <<>>, "")}
    [] pf = "args" ->
         {Rule(".r"), Mixin("m", <<Prm("a")>>, ""), Mixin("m", <<Prm("a"), PrmD("b", V("a"))>>, ""),
          Mixin("m", <<Prm("a"), PrmD("b", I(6))>>, "r"), Mixin("m", <<PrmD("a", V("b"))>>, ""),
          Mixin("m", <<>>, "r"),
          Function("f", <<Prm("a")>>, ""), Function("f", <<Prm("a"), PrmD("b", Bin("+", V("a"), I(1)))>>, ""),
          IncludeB("m", <<I(1)>>, <<>>, <<"a">>), IncludeB("m", <<I(1)>>, <<>>, <<>>)}
    [] pf = "loopret" ->
         {Function("f", <<>>, ""), For("i", I(1), I(3), TRUE), For("i", I(3), I(1), TRUE), Each(<<"i">>, ListX(<<I(4), I(5)>>, "comma")),
          While(Bin("<", V("x"), I(2))), If(Bin("==", V("i"), I(2)))}
    [] pf = "args2" ->
         {Mixin("m", <<PrmD("a", V("b")), PrmD("b", I(6))>>, ""), Mixin("m", <<PrmD("a", V("b")), PrmD("b", V("a"))>>, ""),
          Function("f", <<PrmD("a", Bin("+", V("b"), I(1))), PrmD("b", I(6))>>, "")}
    [] pf = "ops" ->
         {Rule(".r"), If(Flat(<<V("x"), I(2), V("y"), I(9)>>, <<"==", "and", "==">>)), While(F)}
    [] OTHER -> {}

Profiles == {"scope", "scope2", "closure", "control", "args", "args2", "loopret", "ops", "diag"}
SimpleMenu == IF Profile = "full" THEN UNION {SimpleMenuOf(q) : q \in Profiles} ELSE SimpleMenuOf(Profile)
BlockMenu == IF Profile = "full" THEN UNION {BlockMenuOf(q) : q \in Profiles} ELSE BlockMenuOf(Profile)

----------------------------------------------------------------------------
(* where an instruction may be appended *)
Ctl == {"if", "elseif", "else", "for", "each", "while"}
InFn == "function" \in Range(open)
InMixin == "mixin" \in Range(open)
InIncl == "include" \in Range(open)
InRuleS == "rule" \in Range(open)

RECURSIVE HasCall(_)
HasCall(e) ==
  CASE e.t = "call" -> TRUE
    [] e.t = "bin" -> HasCall(e.l) \/ HasCall(e.r)
    [] e.t = "flat" -> \E i \in 1..Len(e.xs) : HasCall(e.xs[i])
    [] e.t \in {"not", "neg"} -> HasCall(e.e)
    [] e.t = "ifx" -> HasCall(e.c) \/ HasCall(e.a) \/ HasCall(e.b)
    [] OTHER -> FALSE
InsHasCall(ins) == CASE ins.op \in {"debug", "warn", "decl", "prop", "return", "error"} -> HasCall(ins.e)
                     [] ins.op \in {"if", "elseif", "while"} -> HasCall(ins.c)
                     [] OTHER -> FALSE

RECURSIVE EReads(_)
EReads(e) ==
  CASE e.t = "var" -> {"$" \o e.x}
    [] e.t = "call" -> {e.f \o "()"} \cup UNION {EReads(e.pos[i]) : i \in 1..Len(e.pos)} \cup UNION {EReads(e.named[i][2]) : i \in 1..Len(e.named)}
    [] e.t = "bin" -> EReads(e.l) \cup EReads(e.r)
    [] e.t = "flat" -> UNION {EReads(e.xs[i]) : i \in 1..Len(e.xs)}
    [] e.t \in {"not", "neg"} -> EReads(e.e)
    [] e.t = "ifx" -> EReads(e.c) \cup EReads(e.a) \cup EReads(e.b)
    [] e.t = "listx" -> UNION {EReads(e.items[i]) : i \in 1..Len(e.items)}
    [] e.t = "mapx" -> UNION {EReads(e.pairs[i][1]) \cup EReads(e.pairs[i][2]) : i \in 1..Len(e.pairs)}
    [] OTHER -> {}

\* names an instruction reads / introduces (a static over-approximation used only to steer
\* generation away from programs that trivially fail; scoping errors remain reachable because
\* "introduced somewhere earlier" is weaker than "visible here")
Reads(ins) ==
  CASE ins.op \in {"debug", "warn", "decl", "prop", "return", "error"} -> EReads(ins.e)
    [] ins.op \in {"if", "elseif", "while"} -> EReads(ins.c)
    [] ins.op = "for" -> EReads(ins.from) \cup EReads(ins.to)
    [] ins.op = "each" -> EReads(ins.e)
    [] ins.op = "include" -> {"@" \o ins.name} \cup UNION {EReads(ins.pos[i]) : i \in 1..Len(ins.pos)}
                              \cup UNION {EReads(ins.named[i][2]) : i \in 1..Len(ins.named)}
    [] ins.op = "content" -> UNION {EReads(ins.args[i]) : i \in 1..Len(ins.args)}
    [] ins.op \in {"mixin", "function"} -> UNION {IF ins.params[i].hasdef THEN EReads(ins.params[i].def) \ {"$" \o ins.params[k].n : k \in 1..Len(ins.params)} ELSE {} : i \in 1..Len(ins.params)}
    [] OTHER -> {}
Intro(ins) ==
  CASE ins.op = "decl" -> {"$" \o ins.x}
    [] ins.op = "for" -> {"$" \o ins.x}
    [] ins.op = "each" -> {"$" \o ins.xs[i] : i \in 1..Len(ins.xs)}
    [] ins.op = "mixin" -> {"@" \o ins.name} \cup {"$" \o ins.params[i].n : i \in 1..Len(ins.params)} \cup (IF ins.rest = "" THEN {} ELSE {"$" \o ins.rest})
    [] ins.op = "function" -> {ins.name \o "()"} \cup {"$" \o ins.params[i].n : i \in 1..Len(ins.params)} \cup (IF ins.rest = "" THEN {} ELSE {"$" \o ins.rest})
    [] ins.op = "include" -> {"$" \o ins.using[i] : i \in 1..Len(ins.using)}
    [] OTHER -> {}

\* recursion is outside the property's quantifier (bounded programs only): a mixin body never
\* includes, a function body never calls
AllowedCtx(ins) ==
  CASE ins.op = "prop" -> ~InFn /\ (InRuleS \/ InMixin \/ InIncl)
    [] ins.op = "rule" -> ~InFn
    [] ins.op \in {"mixin", "function"} -> open = <<>> \/ (\A i \in 1..Len(open) : open[i] = "rule")
    [] ins.op = "include" -> ~InFn
    [] ins.op = "content" -> InMixin /\ ~InFn
    [] ins.op = "return" -> InFn
    [] ins.op \in {"elseif", "else"} -> lastClosed = "if"
    [] OTHER -> TRUE

Allowed(ins) == /\ (InFn => ~InsHasCall(ins))
                /\ (ins.op = "include" => ~InMixin)
                /\ AllowedCtx(ins)
                /\ (Steer => Reads(ins) \subseteq declared)

\* a fixed beginning per profile (not counted in MaxLen)
Prelude ==
  CASE Profile = "ops" -> <<Decl("x", I(2), FALSE, FALSE), Decl("y", I(3), FALSE, FALSE),
                            Function("f", <<>>, ""), Debug(I(99)), Return(VStr("ret")), End>>
    [] OTHER -> <<>>
RECURSIVE IntroAll(_, _)
IntroAll(p, i) == IF i > Len(p) THEN {} ELSE Intro(p[i]) \cup IntroAll(p, i + 1)

Init == prog = Prelude /\ open = <<>> /\ lastClosed = "" /\ done = FALSE /\ declared = IntroAll(Prelude, 1) /\ split = 0 /\ implast = FALSE

AppendSimple(ins) ==
  /\ ~done /\ Len(prog) - Len(Prelude) < MaxLen /\ Allowed(ins)
  /\ prog' = Append(prog, ins) /\ lastClosed' = "" /\ declared' = declared \cup Intro(ins) /\ UNCHANGED <<open, done, split, implast>>

OpenBlock(ins) ==
  /\ ~done /\ Len(prog) - Len(Prelude) + 2 <= MaxLen /\ Len(open) < MaxDepth /\ Allowed(ins)
  /\ prog' = Append(prog, ins) /\ open' = Append(open, ins.op) /\ lastClosed' = ""
  /\ declared' = declared \cup Intro(ins) /\ UNCHANGED <<done, split, implast>>

CloseBlock ==
  /\ ~done /\ open # <<>>
  /\ prog' = Append(prog, End)
  /\ lastClosed' = (IF open[Len(open)] \in {"if", "elseif"} THEN "if" ELSE "")
  /\ open' = SubSeq(open, 1, Len(open) - 1) /\ UNCHANGED <<done, declared, split, implast>>

Finish == /\ ~done /\ open = <<>> /\ Len(prog) > Len(Prelude) /\ done' = TRUE /\ UNCHANGED <<prog, open, lastClosed, declared, split, implast>>

\* everything written so far becomes the imported file _lib.scss; the entry file starts with @import "lib"
SplitHere == /\ WithImport /\ ~done /\ split = 0 /\ open = <<>> /\ Len(prog) > 0 /\ Len(prog) < MaxLen
             /\ split' = Len(prog) /\ lastClosed' = "" /\ implast' \in BOOLEAN
             /\ declared' = (IF implast' THEN {} ELSE declared)        \* a library imported last is not visible to the entry file
             /\ UNCHANGED <<prog, open, done>>

Next == \/ SplitHere
        \/ \E ins \in SimpleMenu : AppendSimple(ins)
        \/ \E ins \in BlockMenu : OpenBlock(ins)
        \/ CloseBlock \/ Finish

Spec == Init /\ [][Next]_vars

\* unfinished programs must still be closable within MaxLen
Closable == Len(prog) - Len(Prelude) + Len(open) <= MaxLen

----------------------------------------------------------------------------
\* The program that is evaluated: with the import first it is prog itself (imports are inlined);
\* with the import last the entry file's instructions run first.
NMain == Len(prog) - split
Lib == SubSeq(prog, 1, split)
Main == SubSeq(prog, split + 1, Len(prog))
EvalProg == IF split > 0 /\ implast THEN Main \o Lib ELSE prog
\* position (file, line in the SCSS / indented rendering) of instruction i of EvalProg
InLib(i) == IF split = 0 THEN FALSE ELSE IF implast THEN i > NMain ELSE i <= split
FileOf(i) == IF InLib(i) THEN "_lib.scss" ELSE "stdin"
ScssLineOf(i) == IF split = 0 THEN i
                 ELSE IF implast THEN (IF i > NMain THEN i - NMain ELSE i)
                 ELSE (IF i <= split THEN i ELSE i - split + 1)
SassLineOfI(i) == IF split = 0 THEN SassLineOf(prog, i)
                  ELSE IF implast THEN (IF i > NMain THEN SassLineOf(Lib, i - NMain) ELSE SassLineOf(Main, i))
                  ELSE (IF i <= split THEN SassLineOf(Lib, i) ELSE SassLineOf(Main, i - split) + 1)
Obs(p, o) == IF o.k = "decl" THEN <<"decl", o.sel, o.prop, o.val>>
             ELSE <<o.k, o.msg, ScssLineOf(o.at), SassLineOfI(o.at), FileOf(o.at)>>

\* does the program use a construct that only Sass has?  (nesting alone is left open: plain CSS may nest)
RECURSIVE SassExpr(_)
SassExpr(e) == e.t \notin {"int", "str", "qstr"}
SassOnlyIns(ins) == CASE ins.op \in {"rule", "end"} -> FALSE
                      [] ins.op = "prop" -> SassExpr(ins.e)
                      [] OTHER -> TRUE
SassOnly == \E i \in 1..Len(prog) : SassOnlyIns(prog[i])
Nested == \E i \in 1..Len(prog) : prog[i].op = "rule" /\ DepthAt(prog, i) > 0

EmitCase ==
  done =>
    LET s == Run(EvalProg, Fuel)
        k == IF s.unk THEN "unknown" ELSE IF s.err THEN "error" ELSE "ok"
        imp == "@import \"lib\""
    IN /\ (k = "ok" => (s.env = <<1>> /\ s.semi /\ s.sel = "" /\ s.ret = NoRet))      \* scope balance
       /\ PrintT(<<"CASE", ToJson([scss |-> IF split = 0 THEN ScssLines(prog)
                                            ELSE IF implast THEN ScssLines(Main) \o <<imp \o ";">>
                                            ELSE <<imp \o ";">> \o ScssLines(Main),
                                   sass |-> IF split = 0 THEN SassLines(prog)
                                            ELSE IF implast THEN SassLines(Main) \o <<imp>>
                                            ELSE <<imp>> \o SassLines(Main),
                                   lib |-> IF split = 0 THEN <<>> ELSE ScssLines(Lib),
                                   k |-> k, sassonly |-> SassOnly, nested |-> Nested,
                                   log |-> [i \in 1..Len(s.out) |-> Obs(prog, s.out[i])],      \* also what precedes an error
                                   einfo |-> IF s.einfo.at = 0 THEN <<>>
                                             ELSE <<s.einfo.msg, ScssLineOf(s.einfo.at), FileOf(s.einfo.at)>>,
                                   out |-> IF k = "ok" THEN [i \in 1..Len(s.out) |-> Obs(prog, s.out[i])] ELSE <<>>])>>)
=============================================================================
