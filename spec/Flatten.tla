------------------------------- MODULE Flatten -------------------------------
(* Flattening a tree of nested rules by hand (C04).  A program is a flat      *)
(* sequence of instructions closed by "end" (as in Eval):                     *)
(*   rule(sel)  sel = sequence of complex selectors; a complex selector is a  *)
(*              sequence of parts, "&" standing for the parent                *)
(*   media(q) / supports(c) / atrule(name, params)  bubbling at-rules          *)
(*   atroot(q)  q in {"", "without: media", "without: all", "with: media", "with: rule", "without: supports"} *)
(*   nprop(name) a nested property block, decl(p, v), end                      *)
(* The meaning of a program is the list of (at-rule context, selector,        *)
(* property, value) quadruples, in source order.                              *)
EXTENDS Naturals, Sequences, FiniteSets

IsOpenF(ins) == ins.op \in {"rule", "media", "supports", "atrule", "atroot", "nprop"}

RECURSIVE FindEndF(_, _, _)
FindEndF(p, i, d) ==
  IF i > Len(p) THEN Len(p) + 1
  ELSE IF p[i].op = "end" THEN (IF d = 0 THEN i ELSE FindEndF(p, i + 1, d - 1))
  ELSE IF IsOpenF(p[i]) THEN FindEndF(p, i + 1, d + 1)
  ELSE FindEndF(p, i + 1, d)

----------------------------------------------------------------------------
(* parent-selector resolution *)

HasParentRef(cx) == \E i \in 1..Len(cx) : cx[i] = "&"

RECURSIVE JoinS(_, _, _)
JoinS(s, sep, i) == IF i > Len(s) THEN "" ELSE IF i = Len(s) THEN s[i] ELSE s[i] \o sep \o JoinS(s, sep, i + 1)

\* all texts of complex cx with every "&" replaced by one of the parent texts; for several "&" the
\* cross product with the LAST "&" varying fastest
RECURSIVE Subst(_, _, _)
Subst(cx, parents, i) ==
  IF i > Len(cx) THEN <<"">>
  ELSE LET rest == Subst(cx, parents, i + 1)
           heads == IF cx[i] = "&" THEN parents ELSE <<cx[i]>>
       IN [k \in 1..(Len(heads) * Len(rest)) |->
             heads[((k - 1) \div Len(rest)) + 1] \o rest[((k - 1) % Len(rest)) + 1]]

\* the resolved complexes of ONE inner complex against the parent list
\* parents: the selector a nested rule is implicitly prefixed with (<<>> at the root or directly inside an
\* @at-root that drops the rule); amp: what `&` stands for - the enclosing style rule even through @at-root
ResolveOne(cx, parents, amp) ==
  IF HasParentRef(cx) THEN Subst(cx, amp, 1)
  ELSE IF Len(parents) = 0 THEN <<JoinS(cx, "", 1)>>                   \* no enclosing rule: the text itself
  ELSE [k \in 1..Len(parents) |->
          LET t == JoinS(cx, "", 1) IN
          IF Len(t) > 0 /\ SubSeq(t, 1, 1) \in {">", "+", "~"}             \* a leading combinator binds without a descendant space
          THEN parents[k] \o " " \o t ELSE parents[k] \o " " \o t]

\* flattenVertically: first element of every list, then the second of every list, ...
RECURSIVE MaxLenOf(_, _)
MaxLenOf(ls, i) == IF i > Len(ls) THEN 0 ELSE LET m == MaxLenOf(ls, i + 1) IN IF Len(ls[i]) > m THEN Len(ls[i]) ELSE m
RECURSIVE FlatV(_, _, _, _)
FlatV(ls, row, col, maxrow) ==
  IF row > maxrow THEN <<>>
  ELSE IF col > Len(ls) THEN FlatV(ls, row + 1, 1, maxrow)
  ELSE (IF row <= Len(ls[col]) THEN <<ls[col][row]>> ELSE <<>>) \o FlatV(ls, row, col + 1, maxrow)
FlattenVertically(ls) == FlatV(ls, 1, 1, MaxLenOf(ls, 1))

ResolveParent(sel, parents, amp) == FlattenVertically([i \in 1..Len(sel) |-> ResolveOne(sel[i], parents, amp)])

----------------------------------------------------------------------------
(* contexts: ctx = sequence of at-rule records [k, text]; media queries of nested @media merge *)
MediaIdx(ctx) == LET S == {i \in 1..Len(ctx) : ctx[i].k = "media"} IN IF S = {} THEN 0 ELSE CHOOSE i \in S : \A j \in S : j <= i
MergedMedia(outer, inner) == outer \o " and " \o inner         \* only generated for type-only outer, feature-only inner

\* a nested @media merges its query with the enclosing one; when the enclosing @media is the innermost
\* at-rule the merged rule takes its place (it bubbles out), otherwise it stays nested under what is between
EnterMedia(ctx, q) ==
  LET i == MediaIdx(ctx) IN
  IF i = 0 THEN Append(ctx, [k |-> "media", text |-> q])
  ELSE IF i = Len(ctx) THEN [ctx EXCEPT ![i] = [k |-> "media", text |-> MergedMedia(ctx[i].text, q)]]
  ELSE Append(ctx, [k |-> "media", text |-> MergedMedia(ctx[i].text, q)])

AtRootCtx(ctx, q) ==
  CASE q = "" -> ctx                                            \* default: without: rule
    [] q = "without: rule" -> ctx
    [] q = "without: media" -> SelectSeq(ctx, LAMBDA c : c.k # "media")
    [] q = "without: supports" -> SelectSeq(ctx, LAMBDA c : c.k # "supports")
    [] q = "without: layer" -> SelectSeq(ctx, LAMBDA c : c.k # "layer")
    [] q = "without: all" -> <<>>
    [] q = "with: media" -> SelectSeq(ctx, LAMBDA c : c.k = "media")
    [] q = "with: rule" -> <<>>
AtRootKeepsRule(q) == q \in {"without: media", "without: supports", "without: layer", "with: rule"}

CtxText(ctx) == [i \in 1..Len(ctx) |-> "@" \o ctx[i].k \o " " \o ctx[i].text]

RECURSIVE Fl(_, _, _, _, _, _, _, _)
\* quadruples of instructions i..j-1 under context ctx, selector list sel (<<>> = none), property prefix pre
Fl(p, i, j, ctx, sel, pre, amp, rid) ==
  IF i >= j THEN <<>>
  ELSE LET ins == p[i]
           e == IF IsOpenF(ins) THEN FindEndF(p, i + 1, 0) ELSE i
       IN
  CASE ins.op = "decl" ->
         <<[ctx |-> CtxText(ctx), sel |-> JoinS(sel, ", ", 1), prop |-> pre \o ins.p, val |-> ins.v, rid |-> rid]>>
         \o Fl(p, i + 1, j, ctx, sel, pre, amp, rid)
    [] ins.op = "nprop" -> Fl(p, i + 1, e, ctx, sel, pre \o ins.name \o "-", amp, rid) \o Fl(p, e + 1, j, ctx, sel, pre, amp, rid)
    [] ins.op = "rule" -> Fl(p, i + 1, e, ctx, ResolveParent(ins.sel, sel, amp), "", ResolveParent(ins.sel, sel, amp), i) \o Fl(p, e + 1, j, ctx, sel, pre, amp, rid)
    [] ins.op = "media" -> Fl(p, i + 1, e, EnterMedia(ctx, ins.q), sel, "", amp, i)
                           \o Fl(p, e + 1, j, ctx, sel, pre, amp, rid)
    [] ins.op = "supports" -> Fl(p, i + 1, e, Append(ctx, [k |-> "supports", text |-> ins.c]), sel, "", amp, i)
                              \o Fl(p, e + 1, j, ctx, sel, pre, amp, rid)
    [] ins.op = "atrule" -> Fl(p, i + 1, e, Append(ctx, [k |-> ins.name, text |-> ins.params]), sel, "", amp, i)
                            \o Fl(p, e + 1, j, ctx, sel, pre, amp, rid)
    [] ins.op = "atroot" -> Fl(p, i + 1, e, AtRootCtx(ctx, ins.q), IF AtRootKeepsRule(ins.q) THEN sel ELSE <<>>, "", amp, i)
                            \o Fl(p, e + 1, j, ctx, sel, pre, amp, rid)
    [] ins.op = "end" -> <<>>

Flat(p) == Fl(p, 1, Len(p) + 1, <<>>, <<>>, "", <<>>, 0)
=============================================================================
