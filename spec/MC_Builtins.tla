----------------------------- MODULE MC_Builtins -----------------------------
(* Generator for the built-in-module clause of C12: one action chooses the     *)
(* function, one its arguments, one how the module is loaded; the case carries *)
(* the sheet through the module and the sheet through the global alias, which   *)
(* must compile to the same result.                                            *)
EXTENDS Builtins, TLC, Json

VARIABLES stage, fn, arg, use
vars == <<stage, fn, arg, use>>
None == [mod |-> "", member |-> "", alias |-> "", args |-> {}]
Init == stage = "fn" /\ fn = None /\ arg = "" /\ use = ""
PickFn == stage = "fn" /\ \E f \in Functions : fn' = f /\ stage' = "arg" /\ UNCHANGED <<arg, use>>
PickArg == stage = "arg" /\ \E a \in fn.args : arg' = a /\ stage' = "use" /\ UNCHANGED <<fn, use>>
PickUse == stage = "use" /\ \E u \in Uses : use' = u /\ stage' = "done" /\ UNCHANGED <<fn, arg>>
PickMisuse == stage = "fn" /\ \E k \in Misuses : use' = k /\ stage' = "misuse" /\ UNCHANGED <<fn, arg>>
Next == PickFn \/ PickArg \/ PickUse \/ PickMisuse
Spec == Init /\ [][Next]_vars

\* user definitions the meta probes refer to
Prelude == <<"$g: 1;", "@function uf($x) { @return $x + 1; }", "@mixin um { }">>
\* every module is a module of the table, every alias call is well formed
TableOk == \A f \in Functions : f.mod \in {"math", "color", "list", "map", "string", "selector", "meta"} /\ f.args # {}
Emit == /\ (stage = "done" => PrintT(<<"CASE", ToJson([kind |-> "alias", mod |-> fn.mod, member |-> fn.member, alias |-> fn.alias, use |-> use,
                                       viamodule |-> <<UseLine(fn.mod, use)>> \o Prelude \o <<"a { r: " \o Call(fn.mod, use, fn.member, arg) \o "; }">>,
                                       viaglobal |-> Prelude \o <<"a { r: " \o fn.alias \o "(" \o arg \o "); }">>])>>))
        /\ (stage = "misuse" => PrintT(<<"CASE", ToJson([kind |-> "misuse", use |-> use, sheet |-> MisuseSheet(use)])>>))
=============================================================================
