--------------------------------- MODULE Color ---------------------------------
(* Colours over exact rationals (C15): 8-bit channels, rational alpha,         *)
(* RGB <-> HSL <-> HWB by the CSS formulas, and the colour functions by their   *)
(* definitions.  A channel computed from HSL is round-half-up(255 x); when x    *)
(* lies exactly on a .5 boundary both neighbours are admissible (the            *)
(* implementation works in binary floating point).                             *)
EXTENDS Rational, Sequences, FiniteSets

Max3(a, b, c) == IF a >= b /\ a >= c THEN a ELSE IF b >= c THEN b ELSE c
Min3(a, b, c) == IF a <= b /\ a <= c THEN a ELSE IF b <= c THEN b ELSE c
QMin(a, b) == IF QLt(a, b) THEN a ELSE b
QMax(a, b) == IF QLt(a, b) THEN b ELSE a
Clamp01(x) == QMin(QMax(x, Q(0, 1)), Q(1, 1))
Zero == Q(0, 1)
One == Q(1, 1)

\* hue in degrees [0, 360), saturation and lightness in [0, 1], all rationals
RgbToHsl(r, g, b) ==
  LET mx == Max3(r, g, b)  mn == Min3(r, g, b)  d == mx - mn
      l == Q(mx + mn, 510)
      s == IF d = 0 THEN Zero ELSE IF mx + mn <= 255 THEN Q(d, mx + mn) ELSE Q(d, 510 - mx - mn)
      h6 == IF d = 0 THEN Zero
            ELSE IF mx = r THEN (IF g >= b THEN Q(g - b, d) ELSE QAdd(Q(g - b, d), Q(6, 1)))
            ELSE IF mx = g THEN QAdd(Q(b - r, d), Q(2, 1))
            ELSE QAdd(Q(r - g, d), Q(4, 1))
  IN [h |-> QMul(h6, Q(60, 1)), s |-> s, l |-> l]

\* x mod 360 for a rational number of degrees
Mod360(h) == QMod(h, Q(360, 1))

HueToChan(m1, m2, h) ==   \* h in turns, any rational
  LET t == QMod(h, One) IN
  IF QLt(t, Q(1, 6)) THEN QAdd(m1, QMul(QMul(QSub(m2, m1), t), Q(6, 1)))
  ELSE IF QLt(t, Q(1, 2)) THEN m2
  ELSE IF QLt(t, Q(2, 3)) THEN QAdd(m1, QMul(QMul(QSub(m2, m1), QSub(Q(2, 3), t)), Q(6, 1)))
  ELSE m1

\* a channel in [0,1] -> the admissible 8-bit values
Chan8(x) == LET y == QMul(Clamp01(x), Q(255, 1))
                f == QFloor(y)
                fr == QSub(y, QInt(f))
            IN IF fr = Q(1, 2) THEN {f, f + 1} ELSE IF QLt(fr, Q(1, 2)) THEN {f} ELSE {f + 1}

\* h in degrees (any), s and l in [0,1] (clamped): sets of admissible channel values
HslToRgb(h, s0, l0) ==
  LET s == Clamp01(s0)  l == Clamp01(l0)
      m2 == IF ~QLt(Q(1, 2), l) THEN QMul(l, QAdd(s, One)) ELSE QSub(QAdd(l, s), QMul(l, s))
      m1 == QSub(QMul(l, Q(2, 1)), m2)
      ht == QDiv(Mod360(h), Q(360, 1))
  IN [r |-> Chan8(HueToChan(m1, m2, QAdd(ht, Q(1, 3)))), g |-> Chan8(HueToChan(m1, m2, ht)),
      b |-> Chan8(HueToChan(m1, m2, QSub(ht, Q(1, 3))))]

Exactly(r, g, b) == [r |-> {r}, g |-> {g}, b |-> {b}]

\* hwb(h, w, b): white/black normalised when w + b > 1, then each channel of the pure hue scaled
HwbToRgb(h, w0, bk0) ==
  LET sum == QAdd(w0, bk0)
      w == IF QLt(One, sum) THEN QDiv(w0, sum) ELSE w0
      bk == IF QLt(One, sum) THEN QDiv(bk0, sum) ELSE bk0
      f == QSub(QSub(One, w), bk)
      ht == QDiv(Mod360(h), Q(360, 1))
      ch(t) == QAdd(QMul(HueToChan(Zero, One, t), f), w)
  IN [r |-> Chan8(ch(QAdd(ht, Q(1, 3)))), g |-> Chan8(ch(ht)), b |-> Chan8(ch(QSub(ht, Q(1, 3))))]

\* --- the functions, on an 8-bit colour (r, g, b) with alpha a ---------------------------------
AdjustHsl(r, g, b, dh, ds, dl) ==
  LET c == RgbToHsl(r, g, b) IN HslToRgb(QAdd(c.h, dh), QAdd(c.s, ds), QAdd(c.l, dl))
Invert(r, g, b) == Exactly(255 - r, 255 - g, 255 - b)
Grayscale(r, g, b) == LET c == RgbToHsl(r, g, b) IN HslToRgb(c.h, Zero, c.l)
Complement(r, g, b) == AdjustHsl(r, g, b, Q(180, 1), Zero, Zero)
\* mix($c1, $c2, $weight) with opaque colours: channel = round(c1 * w + c2 * (1 - w))
Mix(c1, c2, w) == [r |-> Chan8(QDiv(QAdd(QMul(QInt(c1[1]), w), QMul(QInt(c2[1]), QSub(One, w))), Q(255, 1))),
                   g |-> Chan8(QDiv(QAdd(QMul(QInt(c1[2]), w), QMul(QInt(c2[2]), QSub(One, w))), Q(255, 1))),
                   b |-> Chan8(QDiv(QAdd(QMul(QInt(c1[3]), w), QMul(QInt(c2[3]), QSub(One, w))), Q(255, 1)))]

\* model-level laws on the specification itself
RoundTripHsl(r, g, b) == LET c == RgbToHsl(r, g, b)  x == HslToRgb(c.h, c.s, c.l) IN r \in x.r /\ g \in x.g /\ b \in x.b
ComplementTwice(r, g, b) == LET x == AdjustHsl(r, g, b, Q(360, 1), Zero, Zero) IN r \in x.r /\ g \in x.g /\ b \in x.b
=============================================================================
