-------------------------------- MODULE MC_Extend --------------------------------
(* Generator for C10: a style sheet is built rule by rule (one action each);    *)
(* a rule has a selector from the menu and may @extend a target.  The meaning   *)
(* of the sheet is given by Selectors.Credit: an element matching an extender   *)
(* also counts as having the extended class.                                    *)
EXTENDS Selectors, TLC, Json

CONSTANTS MaxRules, MaxExtends, SelMenu, Targets,
          MediaMenu,    \* media contexts a rule may be wrapped in ("" = top level)
          InnerMenu,    \* {FALSE} or {FALSE, TRUE}: may a rule carry declarations inside a nested '@media screen' of its own?
          ChainMode     \* TRUE: the sheet is a permutation of the four rules of Chain (every order of a three-link @extend chain)

VARIABLES rules, done
vars == <<rules, done>>

Cmp(t, c, nots, iss) == [type |-> t, cls |-> c, nots |-> nots, iss |-> iss]
C1(c) == <<[comb |-> "", cmp |-> c]>>
C2(c1, comb, c2) == <<[comb |-> "", cmp |-> c1], [comb |-> comb, cmp |-> c2]>>
KX == Cmp("", <<"x">>, <<>>, <<>>)
KY == Cmp("", <<"y">>, <<>>, <<>>)
KA == Cmp("a", <<>>, <<>>, <<>>)
KB == Cmp("b", <<>>, <<>>, <<>>)
KAX == Cmp("a", <<"x">>, <<>>, <<>>)
KBY == Cmp("b", <<"y">>, <<>>, <<>>)
KP == Cmp("", <<"%p">>, <<>>, <<>>)
\* name -> selector list
Sel(name) ==
  CASE name = ".x" -> <<C1(KX)>> [] name = ".y" -> <<C1(KY)>> [] name = "a" -> <<C1(KA)>> [] name = "b" -> <<C1(KB)>>
    [] name = "a.x" -> <<C1(KAX)>> [] name = "b.y" -> <<C1(KBY)>> [] name = "%p" -> <<C1(KP)>>
    [] name = "a .x" -> <<C2(KA, " ", KX)>> [] name = ".x > b" -> <<C2(KX, ">", KB)>> [] name = "a ~ .y" -> <<C2(KA, "~", KY)>> [] name = "a + .y" -> <<C2(KA, "+", KY)>>
    [] name = ".y + .x" -> <<C2(KY, "+", KX)>> [] name = "b %p" -> <<C2(KB, " ", KP)>> [] name = ".x .y" -> <<C2(KX, " ", KY)>>
    [] name = ".y:not(.x)" -> <<C1(Cmp("", <<"y">>, << <<C1(KX)>> >>, <<>>))>>
    [] name = ":is(.x, b)" -> <<C1(Cmp("", <<>>, <<>>, << <<C1(KX), C1(KB)>> >>))>>
    [] name = "b:not(.x)" -> <<C1(Cmp("b", <<>>, << <<C1(KX)>> >>, <<>>))>>
    [] name = ".x, b.y" -> <<C1(KX), C1(KBY)>>
    [] name = "a.x .y" -> <<C2(KAX, " ", KY)>>
    [] name = "a:not(.x)" -> <<C1(Cmp("a", <<>>, << <<C1(KX)>> >>, <<>>))>>
TargetClass(t) == CASE t = ".x" -> "x" [] t = ".y" -> "y" [] t = "%p" -> "%p" [] t = ".zz" -> "zz"

RECURSIVE HasNotSel(_)
HasNotSelCmp(c) == Len(c.nots) > 0 \/ (\E i \in 1..Len(c.iss) : HasNotSel(c.iss[i]))
HasNotSel(sl) == \E i \in 1..Len(sl) : \E j \in 1..Len(sl[i]) : HasNotSelCmp(sl[i][j].cmp)

Init == rules = <<>> /\ done = FALSE
NExt == Cardinality({i \in 1..Len(rules) : rules[i].ext # ""})
\* .x <- .y <- %p <- b : every rule order must give the same crediting
Chain == << [name |-> ".x", ext |-> "", optional |-> FALSE, media |-> "", inner |-> FALSE],
            [name |-> ".y", ext |-> ".x", optional |-> FALSE, media |-> "", inner |-> FALSE],
            [name |-> "%p", ext |-> ".y", optional |-> FALSE, media |-> "", inner |-> FALSE],
            [name |-> "b", ext |-> "%p", optional |-> FALSE, media |-> "", inner |-> FALSE] >>
AddChain(k) == /\ ChainMode /\ ~done /\ ~(\E i \in 1..Len(rules) : rules[i] = Chain[k])
               /\ rules' = Append(rules, Chain[k]) /\ UNCHANGED done
AddRule(name, t, opt, md, inn) ==
  /\ ~ChainMode
  /\ (inn => md = "")
  /\ ~done /\ Len(rules) < MaxRules
  /\ (t # "" => NExt < MaxExtends)
  /\ (t = "" => ~opt)
  /\ (opt => t = ".zz")
  /\ (t # "" => ~HasNotSel(Sel(name)))      \* an extender with :not() makes crediting non-monotone (paradoxical sheets): not generated                      \* !optional is only interesting where the target may be missing
  /\ rules' = Append(rules, [name |-> name, ext |-> t, optional |-> opt, media |-> md, inner |-> inn]) /\ UNCHANGED done
Finish == ~done /\ NExt > 0 /\ (ChainMode => Len(rules) = Len(Chain)) /\ done' = TRUE /\ UNCHANGED rules
Next == (\E n \in SelMenu, t \in Targets \cup {""}, o \in BOOLEAN, md \in MediaMenu, inn \in InnerMenu : AddRule(n, t, o, md, inn))
        \/ (\E k \in 1..Len(Chain) : AddChain(k)) \/ Finish
Spec == Init /\ [][Next]_vars

Exts == LET idx == SelectSeq([i \in 1..Len(rules) |-> i], LAMBDA i : rules[i].ext # "")
        IN [k \in 1..Len(idx) |-> [extender |-> Sel(rules[idx[k]].name), target |-> TargetClass(rules[idx[k]].ext), media |-> rules[idx[k]].media]]
\* does the sheet mention the target (in any rule's selector, at any depth)?  Only checked for top-level classes here.
RECURSIVE HasClass(_, _)
HasClassCmp(c, k) == (\E i \in 1..Len(c.cls) : c.cls[i] = k)
                     \/ (\E i \in 1..Len(c.nots) : HasClass(c.nots[i], k)) \/ (\E i \in 1..Len(c.iss) : HasClass(c.iss[i], k))
HasClass(sl, k) == \E i \in 1..Len(sl) : \E j \in 1..Len(sl[i]) : HasClassCmp(sl[i][j].cmp, k)
Mentions(k) == \E i \in 1..Len(rules) : HasClass(Sel(rules[i].name), k)
MissingTarget == \E i \in 1..Len(rules) : rules[i].ext # "" /\ ~rules[i].optional /\ ~Mentions(TargetClass(rules[i].ext))
\* an @extend declared inside @media may only reach rules of the same @media block: a rule elsewhere that mentions the
\* target makes the sheet an error ("You may not @extend selectors across media queries"); a top-level @extend reaches everything
CrossMedia == \E i \in 1..Len(rules) : rules[i].ext # "" /\ rules[i].media # "" /\
                \E j \in 1..Len(rules) : rules[j].media # rules[i].media /\ HasClass(Sel(rules[j].name), TargetClass(rules[i].ext))
CompoundOnly == \A i \in 1..Len(rules) : rules[i].ext # "" => \A j \in 1..Len(Sel(rules[i].name)) : Len(Sel(rules[i].name)[j]) = 1

\* model-level: crediting only ever adds classes (so a selector without :not keeps everything it matched - the first law)
CreditMonotone == done => \A dom \in {d \in Doms : Len(d) <= 2} : \A n \in 1..Len(dom) :
                     Native(dom)[n] \subseteq Credit(dom, Exts, 4)[n]

Line(i) == (IF rules[i].media # "" THEN "@media " \o rules[i].media \o " { " ELSE "") \o rules[i].name \o " { " \o (IF rules[i].ext # "" THEN "@extend " \o rules[i].ext \o (IF rules[i].optional THEN " !optional" ELSE "") \o "; " ELSE "")
           \o "r: " \o ToString(i) \o "; " \o (IF rules[i].inner THEN "@media screen { r2: " \o ToString(i) \o "; } " ELSE "") \o "}"
           \o (IF rules[i].media # "" THEN " }" ELSE "")
Emit == done => PrintT(<<"CASE", ToJson([scss |-> [i \in 1..Len(rules) |-> Line(i)],
                                         sels |-> [i \in 1..Len(rules) |-> Sel(rules[i].name)], medias |-> [i \in 1..Len(rules) |-> rules[i].media], inners |-> [i \in 1..Len(rules) |-> rules[i].inner], crossmedia |-> CrossMedia,
                                         exts |-> Exts, compoundonly |-> CompoundOnly, missing |-> MissingTarget])>>)
=============================================================================
