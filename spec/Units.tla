--------------------------------- MODULE Units ---------------------------------
(* The CSS units Sass knows (C08): their classes and the fixed ratios between  *)
(* convertible units, as exact rationals times a power of pi (rad only).       *)
EXTENDS Rational, Sequences, FiniteSets

\* unit -> <<class, ratio to the class's base unit as rational, exponent of pi>>
\* 1 u = ratio * pi^pe base units.  Bases: px, deg, s, Hz, dpi.
UnitTable ==
  [u \in {"px", "in", "cm", "mm", "q", "pt", "pc", "deg", "grad", "rad", "turn", "s", "ms", "Hz", "kHz", "dpi", "dpcm", "dppx"} |->
    CASE u = "px" -> <<"length", Q(1, 1), 0>>
      [] u = "in" -> <<"length", Q(96, 1), 0>>
      [] u = "cm" -> <<"length", Q(9600, 254), 0>>      \* 1in = 2.54cm
      [] u = "mm" -> <<"length", Q(960, 254), 0>>
      [] u = "q"  -> <<"length", Q(240, 254), 0>>       \* 1in = 101.6q
      [] u = "pt" -> <<"length", Q(96, 72), 0>>
      [] u = "pc" -> <<"length", Q(96, 6), 0>>
      [] u = "deg" -> <<"angle", Q(1, 1), 0>>
      [] u = "grad" -> <<"angle", Q(360, 400), 0>>
      [] u = "rad" -> <<"angle", Q(180, 1), -1>>        \* 2 pi rad = 360deg
      [] u = "turn" -> <<"angle", Q(360, 1), 0>>
      [] u = "s" -> <<"time", Q(1, 1), 0>>
      [] u = "ms" -> <<"time", Q(1, 1000), 0>>
      [] u = "Hz" -> <<"frequency", Q(1, 1), 0>>
      [] u = "kHz" -> <<"frequency", Q(1000, 1), 0>>
      [] u = "dpi" -> <<"resolution", Q(1, 1), 0>>
      [] u = "dpcm" -> <<"resolution", Q(254, 100), 0>>  \* 1dpcm = 2.54dpi
      [] u = "dppx" -> <<"resolution", Q(96, 1), 0>>]

Convertibles == DOMAIN UnitTable
\* units that only convert to themselves
Isolated == {"em", "rem", "lh", "ex", "ch", "cap", "ic", "rlh", "vw", "vh", "vmin", "vmax", "vi", "vb", "fr", "%", "foo"}
AllUnits == Convertibles \cup Isolated      \* "" is unitless, "foo" an unknown unit

ClassOf(u) == IF u \in Convertibles THEN UnitTable[u][1] ELSE u
Convertible(a, b) == a # "" /\ b # "" /\ ClassOf(a) = ClassOf(b)

\* factor f such that 1 a = f b : [q, pe]
Factor(a, b) == IF a = b THEN [q |-> Q(1, 1), pe |-> 0]
                ELSE [q |-> QDiv(UnitTable[a][2], UnitTable[b][2]), pe |-> UnitTable[a][3] - UnitTable[b][3]]

\* design-level coherence of the table itself
RoundTrip == \A a, b \in Convertibles : Convertible(a, b) =>
                LET f == Factor(a, b)  g == Factor(b, a) IN QMul(f.q, g.q) = Q(1, 1) /\ f.pe + g.pe = 0
Transitive == \A a, b, c \in Convertibles : (Convertible(a, b) /\ Convertible(b, c)) =>
                LET f == Factor(a, b)  g == Factor(b, c)  h == Factor(a, c) IN QMul(f.q, g.q) = h.q /\ f.pe + g.pe = h.pe
ClassesPartition == \A a, b \in Convertibles : Convertible(a, b) <=> UnitTable[a][1] = UnitTable[b][1]
=============================================================================
