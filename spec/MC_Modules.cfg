SPECIFICATION Spec
CONSTANTS
  Probes = {"a1", "f1", "mx1", "priv1", "fwd-a2", "fwd-f2", "fwd-mx2", "fwd-priv2", "fwd-unprefixed", "set-a1", "diamond", "unused-ns", "none"}
  Spellings = {"m2", "./m2", "_m2", "m2.scss"}
INVARIANTS ShowMonotone LoadOnce EmitCase
CHECK_DEADLOCK FALSE
