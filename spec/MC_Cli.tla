-------------------------------- MODULE MC_Cli --------------------------------
(* Runs the Cli machine for every flag vector and input class and prints the *)
(* terminal state as the expectation of one process run.                     *)
EXTENDS Cli, TLC, Json

CONSTANTS LpCounts
VARIABLES class, flags

Flags == [style : {"expanded", "compressed"}, nocharset : BOOLEAN, quiet : BOOLEAN, nounicode : BOOLEAN,
          lps : LpCounts, stdin : BOOLEAN, tofile : BOOLEAN]

MCInit == Init /\ class \in Classes /\ flags \in Flags
          /\ (class = "missing" => ~flags.stdin)          \* a missing input file needs a file argument
          /\ (class = "badout" => flags.tofile)           \* an uncreatable output needs an output argument
MCNext == Next(class, flags) /\ UNCHANGED <<class, flags>>
Spec == MCInit /\ [][MCNext]_<<vars, class, flags>>

Emit == phase = "exit" =>
  PrintT(<<"CASE", ToJson([class |-> class, flags |-> flags, exit |-> exit, stdout |-> stdout,
                           outfile |-> outfile, stderr |-> stderr])>>)
=============================================================================
