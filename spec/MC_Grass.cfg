SPECIFICATION GSpec
INVARIANT TotalityShape
CHECK_DEADLOCK FALSE
