------------------------------ MODULE MC_Cycles ------------------------------
(* Generator for the load-once / cycle clauses of C12 over deeper graphs than   *)
(* MC_Modules: three library files m1..m3, each with a marker rule, loading     *)
(* each other through @use or @forward edges added one per action; the entry    *)
(* loads a chosen subset.  Expectation: an error when a cycle is reachable from  *)
(* the entry ("Module loop"), otherwise every reachable module's marker exactly  *)
(* once, a module's marker after the markers of what it loads (dependencies are  *)
(* evaluated first, in the order of the rules).                                  *)
EXTENDS Naturals, Sequences, FiniteSets, TLC, Json

CONSTANTS MaxEdges
Files == {"m1", "m2", "m3"}
VARIABLES edges,    \* sequence of [from, to, kind]; from = "entry" or a file
          done
vars == <<edges, done>>

Init == edges = <<>> /\ done = FALSE
HasEdge(f, t) == \E i \in 1..Len(edges) : edges[i].from = f /\ edges[i].to = t
AddEdge(f, t, k) == /\ ~done /\ Len(edges) < MaxEdges /\ ~HasEdge(f, t)
                    /\ (f = "entry" => k = "use")
                    /\ edges' = Append(edges, [from |-> f, to |-> t, kind |-> k]) /\ UNCHANGED done
Finish == ~done /\ (\E i \in 1..Len(edges) : edges[i].from = "entry") /\ done' = TRUE /\ UNCHANGED edges
Next == (\E f \in Files \cup {"entry"}, t \in Files, k \in {"use", "forward"} : AddEdge(f, t, k)) \/ Finish
Spec == Init /\ [][Next]_vars

Succ(f) == {edges[i].to : i \in {j \in 1..Len(edges) : edges[j].from = f}}
RECURSIVE ReachN(_, _)
ReachN(S, n) == IF n = 0 THEN S ELSE ReachN(S \cup UNION {Succ(f) : f \in S}, n - 1)
Reachable == ReachN(Succ("entry"), 3)
\* f can reach itself
OnCycle(f) == f \in ReachN(Succ(f), 3)
Cyclic == \E f \in Reachable : OnCycle(f)
\* model-level sanity: a self edge is a cycle; an acyclic graph over three files has at most three edges between files
SelfLoopIsCycle == \A f \in Files : (f \in Reachable /\ HasEdge(f, f)) => Cyclic

OutOf(f) == SelectSeq(edges, LAMBDA e : e.from = f)
Body(f) == [i \in 1..Len(OutOf(f)) |-> "@" \o OutOf(f)[i].kind \o " \"" \o OutOf(f)[i].to \o "\";"] \o <<"." \o f \o " { k: v; }">>
Entry == [i \in 1..Len(OutOf("entry")) |-> "@use \"" \o OutOf("entry")[i].to \o "\";"] \o <<".entry { k: v; }">>
\* dependency pairs <<a, b>>: b's marker must come after a's (b loads a)
Before == {<<edges[i].to, edges[i].from>> : i \in {j \in 1..Len(edges) : edges[j].from \in Reachable}}
Emit == done => PrintT(<<"CASE", ToJson([entry |-> Entry, m1 |-> Body("m1"), m2 |-> Body("m2"), m3 |-> Body("m3"),
                                         cyclic |-> Cyclic, reachable |-> Reachable,
                                         before |-> {<<p[1], p[2]>> : p \in Before}])>>)
=============================================================================
