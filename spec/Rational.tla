------------------------------- MODULE Rational -------------------------------
(* Exact rational arithmetic on normalised pairs <<n, d>> with d > 0, within  *)
(* TLC's 32-bit integers (operands are reduced before multiplying).          *)
EXTENDS Integers

RECURSIVE GCD(_, _)
GCD(a, b) == IF b = 0 THEN (IF a < 0 THEN -a ELSE a) ELSE GCD(b, a % b)
Abs(x) == IF x < 0 THEN -x ELSE x

Norm(n, d) == LET g == GCD(Abs(n), Abs(d))
                  s == IF d < 0 THEN -1 ELSE 1
              IN IF g = 0 THEN <<0, 1>> ELSE <<s * (n \div g), s * (d \div g)>>
Q(n, d) == Norm(n, d)
QInt(n) == <<n, 1>>

QMul(a, b) == LET g1 == GCD(Abs(a[1]), b[2])  g2 == GCD(Abs(b[1]), a[2])
              IN Norm((a[1] \div (IF g1 = 0 THEN 1 ELSE g1)) * (b[1] \div (IF g2 = 0 THEN 1 ELSE g2)),
                      (a[2] \div (IF g2 = 0 THEN 1 ELSE g2)) * (b[2] \div (IF g1 = 0 THEN 1 ELSE g1)))
QInv(a) == Norm(a[2], a[1])
QDiv(a, b) == QMul(a, QInv(b))
QAdd(a, b) == LET g == GCD(a[2], b[2]) IN Norm(a[1] * (b[2] \div g) + b[1] * (a[2] \div g), (a[2] \div g) * b[2])
QNeg(a) == <<-a[1], a[2]>>
QSub(a, b) == QAdd(a, QNeg(b))
QLt(a, b) == QSub(a, b)[1] < 0
QEq(a, b) == a = b
QFloor(a) == IF a[1] >= 0 THEN a[1] \div a[2] ELSE -((-a[1] + a[2] - 1) \div a[2])
\* Sass modulo: the result takes the sign of the divisor
QMod(a, b) == QSub(a, QMul(b, QInt(QFloor(QDiv(a, b)))))
=============================================================================
