----------------------------- MODULE Trace_Media -----------------------------
(* Validates observations of the implementation against Media: one event per *)
(* compiled nesting, carrying the query lists of the source and the chain of *)
(* @media preludes that encloses the declaration in grass's output (parsed by *)
(* the checker, not by grass).  An event is explained by the action Observe   *)
(* only if the emitted chain is allowed by the specification; otherwise the   *)
(* action Reject consumes it and reports it.                                  *)
EXTENDS Media, TLC, Json, IOUtils

VARIABLES l, bad
Rec == ndJsonDeserialize(IOEnv.TRACE)

Sources(r) == IF Len(r.mid) > 0 THEN <<r.outer, r.mid, r.inner>> ELSE <<r.outer, r.inner>>

SemOk(r) ==
  IF r.present
  THEN \A e \in Env : SatChain(r.chain, e) <=> SatChain(Sources(r), e)
  ELSE \A e \in Env : ~SatChain(Sources(r), e)

\* no invented text: every emitted query takes its type/modifier spelling and conditions from the source
AllSrc(r) == LET s == Sources(r) IN UNION {Range(s[i]) : i \in 1..Len(s)}
Preserved(r) ==
  \A i \in 1..Len(r.chain) : \A j \in 1..Len(r.chain[i]) :
     LET q == r.chain[i][j] IN
       /\ \E s \in AllSrc(r) : q.type = s.type \/ q.type = ""
       /\ \E s \in AllSrc(r) : q.mod = s.mod \/ q.mod = ""
       /\ Range(q.conds) \subseteq UNION {Range(s.conds) : s \in AllSrc(r)}

ClassOk(r) ==
  IF Len(r.mid) > 0 THEN TRUE
  ELSE LET m == MergeQ(r.outer, r.inner) IN
    CASE m.k = "unrep" -> r.present /\ r.chain = <<r.outer, r.inner>>      \* rules stay nested, text kept
      [] m.k = "ok" /\ m.qs = <<>> -> ~r.present                           \* empty intersection: dropped
      [] OTHER -> r.present /\ Len(r.chain) = 1                            \* one merged @media rule

Allowed(r) == r.parsed /\ SemOk(r) /\ Preserved(r) /\ ClassOk(r)

Init == l = 1 /\ bad = 0
Observe == l <= Len(Rec) /\ (Allowed(Rec[l]) = TRUE) /\ l' = l + 1 /\ UNCHANGED bad
Reject  == /\ l <= Len(Rec) /\ (Allowed(Rec[l]) = FALSE)
           /\ PrintT(<<"REJECT", ToJson([id |-> Rec[l].id,
                                           sem |-> Rec[l].parsed /\ SemOk(Rec[l]),
                                           preserved |-> Rec[l].parsed /\ Preserved(Rec[l]),
                                           class |-> Rec[l].parsed /\ ClassOk(Rec[l])])>>)
           /\ l' = l + 1 /\ bad' = bad + 1
Next == Observe \/ Reject
Spec == Init /\ [][Next]_<<l, bad>>

Consumed == (TLCGet("stats").diameter - 1 = Len(Rec)) \/ Print(<<"NOTE", "trace not consumed">>, FALSE)
=============================================================================
