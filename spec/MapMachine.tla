------------------------------ MODULE MapMachine ------------------------------
(* Sass equality classes and the map as a machine (C09).                       *)
(* A representative value is <<source text, class>>: two values are == exactly  *)
(* when their classes are equal.  A map is a sequence of entries                *)
(* [key (text), cls (class of the key), val] in first-insertion order; val is   *)
(* a scalar text or a nested map.  Operations never reorder surviving keys; an  *)
(* existing key keeps its original spelling and position when its value is      *)
(* replaced.                                                                   *)
EXTENDS Naturals, Sequences, FiniteSets

\* <<text, class>>
Universe ==
  << <<"1", "n1">>, <<"1.0", "n1">>, <<"1.000000000001", "n1">>, <<"1.00000000002", "n1b">>, <<"2", "n2">>,
     <<"1px", "px1">>, <<"96px", "len96">>, <<"1in", "len96">>, <<"2.54cm", "len96">>, <<"72pt", "len96">>, <<"1em", "em1">>, <<"100%", "pct100">>,
     <<"360deg", "turn1">>, <<"1turn", "turn1">>, <<"1000ms", "s1">>, <<"1s", "s1">>,
     <<"a", "sa">>, <<"\"a\"", "sa">>, <<"'a'", "sa">>, <<"b", "sb">>, <<"\"\"", "sempty">>,
     <<"red", "cred">>, <<"#f00", "cred">>, <<"#ff0000", "cred">>, <<"rgb(255, 0, 0)", "cred">>, <<"rgba(255, 0, 0, 0.5)", "credhalf">>, <<"blue", "cblue">>,
     <<"hsl(0, 100%, 50%)", "cred">>, <<"#666666", "cgray40">>, <<"hsl(0, 0%, 40%)", "cgray40">>, <<"hsl(120, 0%, 40%)", "cgray40">>,
     <<"darken(#999999, 20%)", "cgray40">>,
     <<"(k 1)", "lk1-space">>, <<"(k 1.0)", "lk1-space">>, <<"(k, 1)", "lk1-comma">>, <<"[k 1]", "lk1-space-br">>,
     <<"(a b)", "lab-space">>, <<"(a, b)", "lab-comma">>, <<"[a b]", "lab-space-br">>, <<"(a,)", "la-comma">>, <<"(1in 2)", "l96-2">>, <<"(96px 2)", "l96-2">>,
     <<"(k: 1)", "mk1">>, <<"(k: 1.0)", "mk1">>, <<"(k: 2)", "mk2">>, <<"(k: 1, j: 2)", "mkj">>, <<"(j: 2, k: 1)", "mkj">>,
     <<"null", "null">>, <<"false", "false">>, <<"true", "true">>, <<"0", "n0">>, <<"-0", "n0">>, <<"0px", "px0">>, <<"0cm", "px0">> >>

TextOf(i) == Universe[i][1]
ClassOf(i) == Universe[i][2]
SassEq(i, j) == ClassOf(i) = ClassOf(j)

\* the laws hold of the specification's relation by construction; stated so that TLC checks the table is usable
EqReflexive == \A i \in 1..Len(Universe) : SassEq(i, i)
EqSymmetric == \A i, j \in 1..Len(Universe) : SassEq(i, j) = SassEq(j, i)
EqTransitive == \A i, j, k \in 1..Len(Universe) : (SassEq(i, j) /\ SassEq(j, k)) => SassEq(i, k)

----------------------------------------------------------------------------
(* the map machine; keys are indices into Keys, values are texts or maps *)
IsMap(v) == v.t = "map"
Scalar(s) == [t |-> "s", v |-> s]
MapV(m) == [t |-> "map", v |-> m]
Entry(k, c, v) == [key |-> k, cls |-> c, val |-> v]

Find(m, c) == LET S == {i \in 1..Len(m) : m[i].cls = c} IN IF S = {} THEN 0 ELSE CHOOSE i \in S : TRUE
NoDupKeys(m) == \A i, j \in 1..Len(m) : m[i].cls = m[j].cls => i = j

Set(m, k, c, v) == LET i == Find(m, c) IN IF i = 0 THEN Append(m, Entry(k, c, v)) ELSE [m EXCEPT ![i].val = v]
Remove(m, c) == SelectSeq(m, LAMBDA e : e.cls # c)
RECURSIVE Merge(_, _, _)
Merge(m, m2, i) == IF i > Len(m2) THEN m ELSE Merge(Set(m, m2[i].key, m2[i].cls, m2[i].val), m2, i + 1)
RECURSIVE DeepMerge(_, _, _)
DeepMerge(m, m2, i) ==
  IF i > Len(m2) THEN m
  ELSE LET e == m2[i]  j == Find(m, e.cls) IN
       IF j # 0 /\ IsMap(m[j].val) /\ IsMap(e.val)
       THEN DeepMerge([m EXCEPT ![j].val = MapV(DeepMerge(m[j].val.v, e.val.v, 1))], m2, i + 1)
       ELSE DeepMerge(Set(m, e.key, e.cls, e.val), m2, i + 1)

\* invariants of the machine: used as model-level checks on every reachable map
RECURSIVE WellFormedMap(_)
WellFormedMap(m) == NoDupKeys(m) /\ \A i \in 1..Len(m) : IsMap(m[i].val) => WellFormedMap(m[i].val.v)

\* survivors keep their relative order under any operation
Order(m) == [i \in 1..Len(m) |-> m[i].cls]
IsSubseqOrder(a, b) == \* a's order restricted to keys also in b equals b's order restricted to keys also in a
  LET common == {a[i] : i \in 1..Len(a)} \cap {b[i] : i \in 1..Len(b)}
  IN SelectSeq(a, LAMBDA c : c \in common) = SelectSeq(b, LAMBDA c : c \in common)

\* inspect() text
RECURSIVE JoinM(_, _, _)
JoinM(s, sep, i) == IF i > Len(s) THEN "" ELSE IF i = Len(s) THEN s[i] ELSE s[i] \o sep \o JoinM(s, sep, i + 1)
RECURSIVE InspectMap(_)
InspectVal(v) == IF IsMap(v) THEN InspectMap(v.v) ELSE v.v
InspectMap(m) == IF Len(m) = 0 THEN "()"
                 ELSE "(" \o JoinM([i \in 1..Len(m) |-> m[i].key \o ": " \o InspectVal(m[i].val)], ", ", 1) \o ")"
=============================================================================
