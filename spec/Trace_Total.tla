------------------------------ MODULE Trace_Total ------------------------------
(* Observed outcomes against Grass: one event per batch of compilations, with *)
(* the number that ended as CSS, per error kind, and the list of executions   *)
(* that ended in anything the machine cannot do (panic, crash, timeout,       *)
(* unrenderable or unclassifiable error).                                     *)
EXTENDS Grass, TLC, Json, IOUtils, FiniteSets

VARIABLES l
Rec == ndJsonDeserialize(IOEnv.TRACE)

\* every execution of the batch ended in an outcome of the machine
Explained(b) == /\ b.n = b.css + b.parse + b.io + b.utf8
                /\ b.other = <<>>
                /\ {"css", "parse", "io", "utf8"} \subseteq Outcomes

TInit == l = 1 /\ GInit
Observe == l <= Len(Rec) /\ Explained(Rec[l]) /\ l' = l + 1 /\ UNCHANGED gvars
Reject  == /\ l <= Len(Rec) /\ ~Explained(Rec[l])
           /\ PrintT(<<"REJECT", ToJson([id |-> Rec[l].id, other |-> Rec[l].other])>>) /\ l' = l + 1 /\ UNCHANGED gvars
Next == Observe \/ Reject
Spec == TInit /\ [][Next]_<<l, gvars>>
Consumed == (TLCGet("stats").diameter - 1 = Len(Rec)) \/ Print(<<"NOTE", "trace not consumed">>, FALSE)
=============================================================================
