------------------------------ MODULE MC_Sheet ------------------------------
(* Generator of small style sheets that stress the serializer (C05/C06):      *)
(* quoted strings assembled from character atoms (escapes, control            *)
(* characters, both quote kinds, hex-looking letters), and the places where   *)
(* a non-ASCII character may sit (value, selector, comment, @media, @supports, *)
(* @import, unknown at-rule, custom property).  One atom / one placement per  *)
(* action.                                                                    *)
EXTENDS Naturals, Sequences, FiniteSets, TLC, Json

CONSTANTS MaxStr, Mode        \* Mode in {"strings", "placements"}

VARIABLES str, places, done
vars == <<str, places, done>>

\* source spelling of each atom inside a double-quoted SCSS string
Atoms == <<"a", "B", "F", "1", " ", "\\a", "\\a ", "\\9", "\\\"", "'", "\\\\", "é", "#", "{", "/", "\\0">>
Places == {"value", "selector", "comment", "media", "supports", "import", "atrule", "custom", "keyframes"}

Init == str = <<>> /\ places = {} /\ done = FALSE
AddAtom(i) == Mode = "strings" /\ ~done /\ Len(str) < MaxStr /\ str' = Append(str, i) /\ UNCHANGED <<places, done>>
AddPlace(p) == Mode = "placements" /\ ~done /\ p \notin places /\ places' = places \cup {p} /\ UNCHANGED <<str, done>>
Finish == ~done /\ (Mode = "strings" => Len(str) > 0) /\ done' = TRUE /\ UNCHANGED <<str, places>>
Next == (\E i \in 1..Len(Atoms) : AddAtom(i)) \/ (\E p \in Places : AddPlace(p)) \/ Finish
Spec == Init /\ [][Next]_vars

RECURSIVE Cat(_, _)
Cat(s, i) == IF i > Len(s) THEN "" ELSE Atoms[s[i]] \o Cat(s, i + 1)

X(p) == IF p \in places THEN "é" ELSE "e"
Sheet ==
  IF Mode = "strings" THEN <<"a { content: \"" \o Cat(str, 1) \o "\"; --c: \"" \o Cat(str, 1) \o "\"; }">>
  ELSE <<"@import url(\"http://x/" \o X("import") \o "\");",
         "/* c" \o X("comment") \o " */",
         ".s" \o X("selector") \o " { v: \"" \o X("value") \o "\"; --k: " \o X("custom") \o "; }",
         "@media screen and (f: \"" \o X("media") \o "\") { m { n: o; } }",
         "@supports (g: \"" \o X("supports") \o "\") { p { q: r; } }",
         "@u" \o " \"" \o X("atrule") \o "\" { s { t: u; } }",
         "@keyframes k" \o X("keyframes") \o " { from { w: x; } }">>

Emit == done => PrintT(<<"CASE", ToJson([scss |-> Sheet, nonascii |-> (Mode = "placements" /\ places # {})
                                                      \/ (Mode = "strings" /\ \E i \in 1..Len(str) : Atoms[str[i]] = "é")])>>)
=============================================================================
