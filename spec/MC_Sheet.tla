------------------------------ MODULE MC_Sheet ------------------------------
(* Generator of small style sheets that stress the serializer (C05/C06):      *)
(* quoted strings assembled from character atoms (escapes, control            *)
(* characters, both quote kinds, hex-looking letters), and the places where   *)
(* a non-ASCII character may sit (value, selector, comment, @media, @supports, *)
(* @import, unknown at-rule, custom property).  One atom / one placement per  *)
(* action.                                                                    *)
EXTENDS Naturals, Sequences, FiniteSets, TLC, Json

CONSTANTS MaxStr, Mode        \* Mode in {"strings", "placements", "forms"}

VARIABLES str, places, done
vars == <<str, places, done>>

\* "forms": statements that go through the less travelled serializer paths - attribute selectors whose quoted value may or may
\* not be printable as an identifier, CSS functions that share a name with a Sass function, colours with zero alpha, and
\* blocks whose children include a rule that produces no output between two statements
Forms == <<"[a=\"-1\"] { p: q; }", "[a=\"-\"] { p: q; }", "[a=\"x y\"] { p: q; }", "[a=\"1a\"] { p: q; }", "[a=\"--x\"] { p: q; }",
           "[a=\"b\"] { p: q; }", "[a=\"\"] { p: q; }", "[a^=\"-10px\"] { p: q; }", "[a=b] { p: q; }",
           "f { filter: saturate(180%); }", "f { filter: grayscale(50%) invert(30%); }", "f { filter: alpha(opacity=50); }",
           "f { filter: opacity(20%); backdrop-filter: saturate(2); }", "c { from: rgba(51, 102, 204, 0); via: transparentize(red, 1); }",
           "c { k: rgba(0, 0, 0, 0); l: transparent; m: hsla(10, 20%, 30%, 0.5); }", "c { n: min(1px, 2em); o: calc(1px + 2%); }",
           "i { p: q !important; r: 1e3; s: U+26; }",
           "@page :first { margin: 1in; %ph1 { x: y; } size: a4; }", "@font-face { font-family: f; e1 { } src: url(u); }",
           "@foo bar { a: b; %ph2 { c: d; } e: f; }", "@media print { @layer base; %ph3 { x: y; } c { d: e; } }",
           "@media print { @layer base; c { d: e; } }", "g { b: c; %ph4 { t: u; } d { e: f; } h: i; }",
           "@foo bar { e2 { } a: b; e3 { } }", "@media screen { %ph5 { x: y; } @foo baz; j { k: l; } }">>

\* source spelling of each atom inside a double-quoted SCSS string
Atoms == <<"a", "B", "F", "1", " ", "\\a", "\\a ", "\\9", "\\\"", "'", "\\\\", "é", "#", "{", "/", "\\0">>
Places == {"value", "selector", "comment", "media", "supports", "import", "atrule", "custom", "keyframes"}

Init == str = <<>> /\ places = {} /\ done = FALSE
AddAtom(i) == Mode = "strings" /\ ~done /\ Len(str) < MaxStr /\ str' = Append(str, i) /\ UNCHANGED <<places, done>>
AddPlace(p) == Mode = "placements" /\ ~done /\ p \notin places /\ places' = places \cup {p} /\ UNCHANGED <<str, done>>
AddForm(i) == Mode = "forms" /\ ~done /\ Len(str) < MaxStr /\ str' = Append(str, i) /\ UNCHANGED <<places, done>>
Finish == ~done /\ (Mode \in {"strings", "forms"} => Len(str) > 0) /\ done' = TRUE /\ UNCHANGED <<str, places>>
Next == (\E i \in 1..Len(Atoms) : AddAtom(i)) \/ (\E p \in Places : AddPlace(p)) \/ (\E i \in 1..Len(Forms) : AddForm(i)) \/ Finish
Spec == Init /\ [][Next]_vars

RECURSIVE Cat(_, _)
Cat(s, i) == IF i > Len(s) THEN "" ELSE Atoms[s[i]] \o Cat(s, i + 1)

X(p) == IF p \in places THEN "é" ELSE "e"
Sheet ==
  IF Mode = "forms" THEN [i \in 1..Len(str) |-> Forms[str[i]]]
  ELSE IF Mode = "strings" THEN <<"a { content: \"" \o Cat(str, 1) \o "\"; --c: \"" \o Cat(str, 1) \o "\"; }">>
  ELSE <<"@import url(\"http://x/" \o X("import") \o "\");",
         "/* c" \o X("comment") \o " */",
         ".s" \o X("selector") \o " { v: \"" \o X("value") \o "\"; --k: " \o X("custom") \o "; }",
         "@media screen and (f: \"" \o X("media") \o "\") { m { n: o; } }",
         "@supports (g: \"" \o X("supports") \o "\") { p { q: r; } }",
         "@u" \o " \"" \o X("atrule") \o "\" { s { t: u; } }",
         "@keyframes k" \o X("keyframes") \o " { from { w: x; } }">>

Emit == done => PrintT(<<"CASE", ToJson([scss |-> Sheet, nonascii |-> (Mode = "placements" /\ places # {})
                                                      \/ (Mode = "strings" /\ \E i \in 1..Len(str) : Atoms[str[i]] = "é")])>>)
=============================================================================
