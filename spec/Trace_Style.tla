------------------------------ MODULE Trace_Style ------------------------------
(* One event per input compiled in both output styles (C06): outcome class,    *)
(* token streams (numbers and colours already in normal form), logger          *)
(* deliveries and error message of each.  Explained when the two differ in     *)
(* formatting only.                                                            *)
EXTENDS CssTokens, TLC, Json, IOUtils

VARIABLES l
Rec == ndJsonDeserialize(IOEnv.TRACE)

Allowed(r) ==
  /\ r.e.outcome = r.c.outcome                              \* both compile or both fail
  /\ (r.e.outcome = "error" => r.e.message = r.c.message)   \* and for the same reason
  /\ r.e.log = r.c.log                                      \* @debug/@warn see the same values
  /\ (r.e.outcome = "css" => StyleEquivalent(r.e.toks, r.c.toks))

Init == l = 1
Observe == l <= Len(Rec) /\ (Allowed(Rec[l]) = TRUE) /\ l' = l + 1
Reject  == /\ l <= Len(Rec) /\ (Allowed(Rec[l]) = FALSE)
           /\ PrintT(<<"REJECT", ToJson([id |-> Rec[l].id, outcome |-> Rec[l].e.outcome = Rec[l].c.outcome,
                                          log |-> Rec[l].e.log = Rec[l].c.log])>>)
           /\ l' = l + 1
Next == Observe \/ Reject
Spec == Init /\ [][Next]_l
Consumed == (TLCGet("stats").diameter - 1 = Len(Rec)) \/ Print(<<"NOTE", "trace not consumed">>, FALSE)
=============================================================================
