--------------------------------- MODULE Calc ---------------------------------
(* Calculations (C16): the AST of calc()/min()/max()/clamp() expressions, the  *)
(* quantity an expression denotes under an assignment of lengths to the        *)
(* relative units and of values to var() references, and when an expression    *)
(* must fold to a plain number or must be rejected.                            *)
(*   node: [t |-> "num", n, d, u]  |  [t |-> "var", name]                       *)
(*         [t |-> "op", op, l, r]   op in + - * /                               *)
(*         [t |-> "fn", f, args]    f in calc min max clamp                     *)
(* A quantity is [q |-> rational, dim |-> <<length, angle, time>> exponents],   *)
(* or Bad (the expression has no value: incompatible addition, compound unit).  *)
EXTENDS Rational, Sequences, FiniteSets

Bad == [q |-> <<0, 1>>, dim |-> <<9, 9, 9>>]
IsBad(v) == v.dim = <<9, 9, 9>>
None3 == <<0, 0, 0>>

\* environment: px per relative unit, value of each var() (a length in px)
Envs == { [em |-> Q(13, 1), pct |-> Q(23, 10), vw |-> Q(91, 10), x |-> Q(7, 1), c |-> Q(2, 1)],
          [em |-> Q(16, 1), pct |-> Q(1, 2), vw |-> Q(4, 1), x |-> Q(1, 3), c |-> Q(5, 1)],
          [em |-> Q(10, 1), pct |-> Q(3, 1), vw |-> Q(12, 1), x |-> Q(-2, 1), c |-> Q(1, 1)] }

\* a number with a unit as a quantity
UnitQ(n, d, u, env) ==
  CASE u = "" -> [q |-> Q(n, d), dim |-> None3]
    [] u = "px" -> [q |-> Q(n, d), dim |-> <<1, 0, 0>>]
    [] u = "in" -> [q |-> QMul(Q(n, d), Q(96, 1)), dim |-> <<1, 0, 0>>]
    [] u = "em" -> [q |-> QMul(Q(n, d), env.em), dim |-> <<1, 0, 0>>]
    [] u = "%" -> [q |-> QMul(Q(n, d), env.pct), dim |-> <<1, 0, 0>>]
    [] u = "vw" -> [q |-> QMul(Q(n, d), env.vw), dim |-> <<1, 0, 0>>]
    [] u = "deg" -> [q |-> Q(n, d), dim |-> <<0, 1, 0>>]
    [] u = "s" -> [q |-> Q(n, d), dim |-> <<0, 0, 1>>]
    [] u = "ms" -> [q |-> QMul(Q(n, d), Q(1, 1000)), dim |-> <<0, 0, 1>>]
    [] OTHER -> Bad

AddDim(a, b) == [i \in 1..3 |-> a[i] + b[i]]
SubDim(a, b) == [i \in 1..3 |-> a[i] - b[i]]

RECURSIVE EvalCalc(_, _)
RECURSIVE EvalArgs(_, _, _)
EvalArgs(args, env, i) == IF i > Len(args) THEN <<>> ELSE <<EvalCalc(args[i], env)>> \o EvalArgs(args, env, i + 1)

MinBy(vs, less) ==   \* extreme of quantities with one common dimension
  IF \E i \in 1..Len(vs) : IsBad(vs[i]) \/ vs[i].dim # vs[1].dim THEN Bad
  ELSE vs[CHOOSE i \in 1..Len(vs) : \A j \in 1..Len(vs) : IF less THEN ~QLt(vs[j].q, vs[i].q) ELSE ~QLt(vs[i].q, vs[j].q)]

EvalCalc(e, env) ==
  CASE e.t = "num" -> UnitQ(e.n, e.d, e.u, env)
    [] e.t = "var" -> [q |-> IF e.name = "--x" THEN env.x ELSE env.c, dim |-> IF e.name = "--x" THEN <<1, 0, 0>> ELSE None3]
    [] e.t = "op" ->
         LET a == EvalCalc(e.l, env)  b == EvalCalc(e.r, env) IN
         IF IsBad(a) \/ IsBad(b) THEN Bad
         ELSE (CASE e.op = "+" -> IF a.dim = b.dim THEN [q |-> QAdd(a.q, b.q), dim |-> a.dim] ELSE Bad
                 [] e.op = "-" -> IF a.dim = b.dim THEN [q |-> QSub(a.q, b.q), dim |-> a.dim] ELSE Bad
                 [] e.op = "*" -> [q |-> QMul(a.q, b.q), dim |-> AddDim(a.dim, b.dim)]
                 [] e.op = "/" -> IF b.q[1] = 0 THEN Bad ELSE [q |-> QDiv(a.q, b.q), dim |-> SubDim(a.dim, b.dim)])
    [] e.t = "fn" ->
         LET vs == EvalArgs(e.args, env, 1) IN
         (CASE e.f = "calc" -> vs[1]
            [] e.f = "min" -> MinBy(vs, TRUE)
            [] e.f = "max" -> MinBy(vs, FALSE)
            [] e.f = "clamp" -> IF Len(vs) # 3 THEN Bad
                                ELSE LET hi == MinBy(<<vs[2], vs[3]>>, TRUE) IN IF IsBad(hi) THEN Bad ELSE MinBy(<<vs[1], hi>>, FALSE))

\* two expressions denote the same quantity under every environment (Bad only matches Bad)
Equivalent(a, b) == \A env \in Envs : LET x == EvalCalc(a, env)  y == EvalCalc(b, env) IN
                       (IsBad(x) /\ IsBad(y)) \/ (~IsBad(x) /\ ~IsBad(y) /\ x.q = y.q /\ x.dim = y.dim)

\* --- static classification ----------------------------------------------------------------
RECURSIVE Leaves(_)
RECURSIVE LeavesOfArgs(_, _)
LeavesOfArgs(args, i) == IF i > Len(args) THEN {} ELSE Leaves(args[i]) \cup LeavesOfArgs(args, i + 1)
Leaves(e) == CASE e.t = "num" -> {e.u} [] e.t = "var" -> {"var"} [] e.t = "op" -> Leaves(e.l) \cup Leaves(e.r)
               [] e.t = "fn" -> LeavesOfArgs(e.args, 1)
Absolute == {"", "px", "in", "deg", "s", "ms"}            \* units whose size is known at compile time
AllKnown(e) == Leaves(e) \subseteq Absolute
\* with all leaves known the expression either denotes a single-dimension quantity (then it must fold to a number)
\* or has no value (then it must be rejected)
AnyEnv == CHOOSE env \in Envs : TRUE
MustFold(e) == AllKnown(e) /\ ~IsBad(EvalCalc(e, AnyEnv)) /\
               LET d == EvalCalc(e, AnyEnv).dim IN d \in {None3, <<1, 0, 0>>, <<0, 1, 0>>, <<0, 0, 1>>}
\* --- provably incompatible: decided from unit categories alone -----------------------------
\* static dimension of a subexpression: a dimension vector, Unknown (a % or var() leaves it open) or BadDim
Unknown == <<7, 7, 7>>
BadDim == <<9, 9, 9>>
UnitDim(u) == CASE u = "" -> None3 [] u \in {"px", "in", "em", "vw"} -> <<1, 0, 0>> [] u = "deg" -> <<0, 1, 0>>
                [] u \in {"s", "ms"} -> <<0, 0, 1>> [] OTHER -> Unknown
Agree(ds) ==   \* the common dimension of those that are known; BadDim if two known ones differ
  LET known == {i \in 1..Len(ds) : ds[i] # Unknown} IN
  IF \E i \in 1..Len(ds) : ds[i] = BadDim THEN BadDim
  ELSE IF known = {} THEN Unknown
  ELSE LET k == CHOOSE i \in known : TRUE IN IF \A i \in known : ds[i] = ds[k] THEN ds[k] ELSE BadDim
IsNumberLike(x) == x.t = "num" \/ (AllKnown(x) /\ ~IsBad(EvalCalc(x, AnyEnv)))
RECURSIVE StaticDim(_)
RECURSIVE StaticDims(_, _)
StaticDims(args, i) == IF i > Len(args) THEN <<>> ELSE <<StaticDim(args[i])>> \o StaticDims(args, i + 1)
StaticDim(e) ==
  CASE e.t = "num" -> UnitDim(e.u)
    [] e.t = "var" -> Unknown
    [] e.t = "op" ->
         LET a == StaticDim(e.l)  b == StaticDim(e.r) IN
         IF a = BadDim \/ b = BadDim THEN BadDim
         ELSE IF e.op \in {"+", "-"} THEN
              \* units are only compared between NUMBERS: a leaf, or a subexpression that folds; a sum that stays
              \* unsimplified (3px + 4em, 3px + 5%) is not a number and is compared with nothing
              (IF ~(IsNumberLike(e.l) /\ IsNumberLike(e.r)) \/ a = Unknown \/ b = Unknown THEN Unknown
               ELSE IF a # b THEN BadDim
               ELSE IF AllKnown(e) THEN a ELSE Unknown)
         ELSE IF a = Unknown \/ b = Unknown THEN Unknown
         ELSE IF e.op = "*" THEN AddDim(a, b) ELSE SubDim(a, b)
    [] e.t = "fn" ->
         IF e.f = "calc" THEN StaticDim(e.args[1])
         ELSE LET all == StaticDims(e.args, 1)
                  \* only arguments that are numbers take part in the comparison
                  nums == [i \in 1..Len(all) |-> IF all[i] = BadDim THEN BadDim ELSE IF IsNumberLike(e.args[i]) THEN all[i] ELSE Unknown]
              IN IF Agree(nums) = BadDim THEN BadDim ELSE IF AllKnown(e) THEN Agree(nums) ELSE Unknown
MustReject(e) == StaticDim(e) = BadDim

\* left open: min()/max()/clamp() mixing a unitless argument with one that has (or may have) a unit - the legacy
\* global min/max compare a unitless number with anything
RECURSIVE HasUnitless(_)
RECURSIVE HasUnitlessArgs(_, _)
HasUnitlessArgs(args, i) == IF i > Len(args) THEN FALSE ELSE HasUnitless(args[i]) \/ HasUnitlessArgs(args, i + 1)
HasUnitless(e) == CASE e.t = "num" -> e.u = "" [] e.t = "var" -> FALSE [] e.t = "op" -> HasUnitless(e.l) \/ HasUnitless(e.r)
                    [] e.t = "fn" -> HasUnitlessArgs(e.args, 1)
RECURSIVE HasDimLeaf(_)
RECURSIVE HasDimLeafArgs(_, _)
HasDimLeafArgs(args, i) == IF i > Len(args) THEN FALSE ELSE HasDimLeaf(args[i]) \/ HasDimLeafArgs(args, i + 1)
HasDimLeaf(e) == CASE e.t = "num" -> e.u # "" [] e.t = "var" -> FALSE [] e.t = "op" -> HasDimLeaf(e.l) \/ HasDimLeaf(e.r)
                   [] e.t = "fn" -> HasDimLeafArgs(e.args, 1)
\* inside the legacy functions min()/max() a sum of a unitless number and a dimension is SassScript addition (3px - 1 = 2px)
RECURSIVE HasLegacySum(_)
RECURSIVE LegacySumArgs(_, _)
LegacySumArgs(args, i) == IF i > Len(args) THEN FALSE ELSE HasLegacySum(args[i]) \/ LegacySumArgs(args, i + 1)
HasLegacySum(e) ==
  CASE e.t = "op" -> \/ HasLegacySum(e.l) \/ HasLegacySum(e.r)
                     \/ (e.op \in {"+", "-"} /\ \E env \in Envs : LET a == EvalCalc(e.l, env)  b == EvalCalc(e.r, env) IN
                            ~IsBad(a) /\ ~IsBad(b) /\ a.dim # b.dim /\ (a.dim = None3 \/ b.dim = None3))
    [] e.t = "fn" -> LegacySumArgs(e.args, 1)
    [] OTHER -> FALSE
RECURSIVE MixedMinMax(_)
RECURSIVE MixedArgs(_, _)
MixedArgs(args, i) == IF i > Len(args) THEN FALSE ELSE MixedMinMax(args[i]) \/ MixedArgs(args, i + 1)
MixedMinMax(e) ==
  CASE e.t = "op" -> MixedMinMax(e.l) \/ MixedMinMax(e.r)
    [] e.t = "fn" -> \/ MixedArgs(e.args, 1)
                     \/ (e.f \in {"min", "max"} /\ HasUnitless(e) /\ HasDimLeaf(e))
                     \/ (e.f \in {"min", "max"} /\ LegacySumArgs(e.args, 1))
                     \/ (e.f \in {"min", "max"} /\ LET vs == EvalArgs(e.args, AnyEnv, 1) IN      \* a unitless quotient next to a dimension
                            (\E i \in 1..Len(vs) : vs[i].dim = None3) /\ (\E i \in 1..Len(vs) : vs[i].dim # None3))
    [] OTHER -> FALSE
\* a product or quotient of two operands that both carry units may be a compound unit, which CSS cannot hold
RECURSIVE MayBeCompound(_)
RECURSIVE CompoundArgs(_, _)
CompoundArgs(args, i) == IF i > Len(args) THEN FALSE ELSE MayBeCompound(args[i]) \/ CompoundArgs(args, i + 1)
MayBeCompound(e) ==
  CASE e.t = "op" -> \/ (e.op = "*" /\ HasDimLeaf(e.l) /\ HasDimLeaf(e.r))
                     \/ (e.op = "/" /\ HasDimLeaf(e.r))                    \* a unit in a denominator
                     \/ MayBeCompound(e.l) \/ MayBeCompound(e.r)
    [] e.t = "fn" -> CompoundArgs(e.args, 1)
    [] OTHER -> FALSE
\* left open: a quotient whose divisor is zero under some environment, unless it is the whole calculation (that case is the
\* 'special' outcome: Infinity/NaN) - arithmetic continuing from an infinite intermediate result is not modelled
RECURSIVE HasZeroDiv(_)
RECURSIVE ZeroDivArgs(_, _)
ZeroDivArgs(args, i) == IF i > Len(args) THEN FALSE ELSE HasZeroDiv(args[i]) \/ ZeroDivArgs(args, i + 1)
ZeroValued(x) == \E env \in Envs : LET v == EvalCalc(x, env) IN ~IsBad(v) /\ v.q[1] = 0
HasZeroDiv(e) == CASE e.t = "op" -> (e.op = "/" /\ ZeroValued(e.r)) \/ HasZeroDiv(e.l) \/ HasZeroDiv(e.r)
                   [] e.t = "fn" -> ZeroDivArgs(e.args, 1)
                   [] OTHER -> FALSE
InfiniteIntermediate(e) ==
  IF e.t = "fn" /\ e.f = "calc" /\ e.args[1].t = "op" /\ e.args[1].op = "/" /\ ~HasZeroDiv(e.args[1].l) /\ ~HasZeroDiv(e.args[1].r)
  THEN FALSE ELSE HasZeroDiv(e)
\* left open: clamp() whose lower bound exceeds its upper bound under some environment (CSS says the lower bound wins,
\* the reference implementation returns the upper bound)
RECURSIVE InvertedClamp(_)
RECURSIVE InvertedArgs(_, _)
InvertedArgs(args, i) == IF i > Len(args) THEN FALSE ELSE InvertedClamp(args[i]) \/ InvertedArgs(args, i + 1)
InvertedClamp(e) ==
  CASE e.t = "op" -> InvertedClamp(e.l) \/ InvertedClamp(e.r)
    [] e.t = "fn" -> \/ InvertedArgs(e.args, 1)
                     \/ (e.f = "clamp" /\ Len(e.args) = 3 /\ \E env \in Envs :
                            LET lo == EvalCalc(e.args[1], env)  hi == EvalCalc(e.args[3], env) IN
                            ~IsBad(lo) /\ ~IsBad(hi) /\ lo.dim = hi.dim /\ QLt(hi.q, lo.q))
    [] OTHER -> FALSE
Simple(d) == d \in {None3, <<1, 0, 0>>, <<0, 1, 0>>, <<0, 0, 1>>}
=============================================================================
