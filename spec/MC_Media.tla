------------------------------ MODULE MC_Media ------------------------------
(* Generator + design-level check for C17.  Builds nestings of @media rules  *)
(* step by step (one query appended per action), checks on the model that    *)
(* the reference merge is the logical intersection for every in-scope pair,  *)
(* and prints each finished nesting as a case: rendered SCSS + expectation.  *)
EXTENDS Media, TLC, Json

CONSTANTS MaxOuter, MaxInner, MaxMid,   \* list lengths
          Spellings,                     \* subset of {"lower","upper"}
          Shapes,                        \* subset of 0..3
          WithOr,                        \* BOOLEAN: include an `or` query
          Small                          \* BOOLEAN: reduced universe (for list x list runs)

VARIABLES stage, outer, mid, inner, shape, done
vars == <<stage, outer, mid, inner, shape, done>>

Subseqs == IF Small THEN {<<>>, <<"(a)">>, <<"(a)", "(b)">>} ELSE
           {<<>>, <<"(a)">>, <<"(b)">>, <<"(a)", "(b)">>, <<"(b)", "(a)">>, <<"(c)">>,
            <<"(a)", "(c)">>, <<"(a)", "(b)", "(c)">>}

Q(m, t, c) == [mod |-> m, type |-> t, conds |-> c, conj |-> TRUE]

Universe ==
  {Q("", "", c) : c \in Subseqs \ {<<>>}}
  \cup (IF Small THEN {Q("", "all", <<>>)} ELSE {Q("", "all", c) : c \in Subseqs})
  \cup {Q(m, t, c) : m \in (IF Small THEN {"", "not"} ELSE {"", "not", "only"}), t \in {"screen", "print"}, c \in Subseqs}
  \cup (IF "upper" \in Spellings
        THEN {Q("NOT", "SCREEN", <<"(a)">>), Q("", "Screen", <<>>), Q("ONLY", "PRINT", <<"(b)">>), Q("", "ALL", <<"(a)">>)}
        ELSE {})
  \cup (IF WithOr THEN {[mod |-> "", type |-> "", conds |-> <<"(a)", "(b)">>, conj |-> FALSE]} ELSE {})

AllInScope(l1, l2) == \A i \in 1..Len(l1), j \in 1..Len(l2) : InScope(l1[i], l2[j])

Init == /\ stage = "outer" /\ outer = <<>> /\ mid = <<>> /\ inner = <<>> /\ shape = 0 /\ done = FALSE

AddOuter(q) == /\ stage = "outer" /\ Len(outer) < MaxOuter
               /\ ~ModifierOnAll(q)
               /\ outer' = Append(outer, q) /\ UNCHANGED <<stage, mid, inner, shape, done>>
ToMid == /\ stage = "outer" /\ Len(outer) > 0 /\ stage' = "mid" /\ UNCHANGED <<outer, mid, inner, shape, done>>
AddMid(q) == /\ stage = "mid" /\ Len(mid) < MaxMid /\ AllInScope(outer, <<q>>)
             /\ mid' = Append(mid, q) /\ UNCHANGED <<stage, outer, inner, shape, done>>
ToInner == /\ stage = "mid" /\ stage' = "inner" /\ UNCHANGED <<outer, mid, inner, shape, done>>
AddInner(q) == /\ stage = "inner" /\ Len(inner) < MaxInner
               /\ AllInScope(outer, <<q>>) /\ AllInScope(mid, <<q>>)
               /\ inner' = Append(inner, q) /\ UNCHANGED <<stage, outer, mid, shape, done>>
Finish(s) == /\ stage = "inner" /\ Len(inner) > 0 /\ ~done
             /\ (Len(mid) > 0 => s = 0)
             /\ shape' = s /\ done' = TRUE /\ stage' = "done" /\ UNCHANGED <<outer, mid, inner>>

Next == \/ \E q \in Universe : AddOuter(q) \/ AddMid(q) \/ AddInner(q)
        \/ ToMid \/ ToInner
        \/ \E s \in Shapes : Finish(s)

Spec == Init /\ [][Next]_vars

----------------------------------------------------------------------------
(* design-level properties of the reference merge, checked in every state *)

PairSound == \A i \in 1..Len(outer), j \in 1..Len(inner) :
               InScope(outer[i], inner[j]) => Sound(outer[i], inner[j])

ListSound ==
  (Len(outer) > 0 /\ Len(inner) > 0 /\ AllInScope(outer, inner)) =>
    LET m == MergeQ(outer, inner) IN
      m.k = "ok" => \A e \in Env : SatList(m.qs, e) <=> (SatList(outer, e) /\ SatList(inner, e))

\* an empty intersection is never classified as unrepresentable (so "dropped iff empty"
\* can be demanded of the implementation through the classification)
EmptyIsRecognised ==
  (Len(outer) = 1 /\ Len(inner) = 1 /\ AllInScope(outer, inner)) =>
    (Merge(outer[1], inner[1]).k = "unrep" =>
       \E e \in Env : Sat(outer[1], e) /\ Sat(inner[1], e))

----------------------------------------------------------------------------
(* rendering and emission *)

Prelude(l, interp) == IF interp THEN "#{\"" \o ListText(l) \o "\"}" ELSE ListText(l)

Scss ==
  IF Len(mid) > 0 THEN
    "@media " \o ListText(outer) \o " { @media " \o ListText(mid) \o " { @media " \o ListText(inner) \o " { a { b: c } } } }"
  ELSE CASE shape = 0 -> "@media " \o ListText(outer) \o " { @media " \o ListText(inner) \o " { a { b: c } } }"
         [] shape = 1 -> "@media " \o ListText(outer) \o " { a { @media " \o ListText(inner) \o " { b: c } } }"
         [] shape = 2 -> "a { @media " \o ListText(outer) \o " { @media " \o ListText(inner) \o " { b: c } } }"
         [] shape = 3 -> "@media " \o Prelude(outer, TRUE) \o " { @media " \o Prelude(inner, TRUE) \o " { a { b: c } } }"

Emit == done => PrintT(<<"CASE", ToJson([scss |-> Scss, outer |-> outer, mid |-> mid, inner |-> inner,
                                          shape |-> shape,
                                          expect |-> IF Len(mid) = 0 THEN MergeQ(outer, inner).k ELSE "sem"])>>)
=============================================================================
