------------------------------ MODULE MC_Equality ------------------------------
(* C09, equality part: every ordered pair of representatives.  The expectation *)
(* of every keyed operation follows from one bit: are the two values ==.       *)
EXTENDS MapMachine, TLC, Json

\* the specification's relation is an equivalence (checked once)
ASSUME EqReflexive /\ EqSymmetric /\ EqTransitive

VARIABLES stage, i, j
Init == stage = 0 /\ i = 1 /\ j = 1
Pick == stage = 0 /\ stage' = 1 /\ \E x, y \in 1..Len(Universe) : i' = x /\ j' = y
Spec == Init /\ [][Pick]_<<stage, i, j>>
Emit == stage = 1 => PrintT(<<"CASE", ToJson([a |-> TextOf(i), b |-> TextOf(j), eq |-> SassEq(i, j), bclass |-> ClassOf(j)])>>)
=============================================================================
