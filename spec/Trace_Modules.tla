---------------------------- MODULE Trace_Modules ----------------------------
(* One event per compiled project of MC_Modules: the outcome, the value the  *)
(* probe produced, the marker rules and the "load" @debug deliveries in      *)
(* order.  Explained by the strict specification, or - reported separately - *)
(* only by the specification with a named deviation switched on.             *)
EXTENDS Naturals, Sequences, TLC, Json, IOUtils

VARIABLES l
Rec == ndJsonDeserialize(IOEnv.TRACE)

ValOf(e, m) == IF m = "m1" THEN e.m1 ELSE e.m2
Matches(r, e) ==
  IF e.k = "err" THEN r.outcome = "error"
  ELSE /\ r.outcome = "css"
       /\ r.out = << <<r.prop, e.v>> >>                                        \* the probe's value
       /\ r.markers = [i \in 1..Len(e.loads) |-> <<"." \o e.loads[i], ValOf(e, e.loads[i])>>]   \* each module's CSS once, in load order
       /\ r.loads = [i \in 1..Len(e.loads) |-> "load " \o e.loads[i]]          \* each module evaluated once

Init == l = 1
Observe == l <= Len(Rec) /\ Matches(Rec[l], Rec[l].expect) /\ l' = l + 1
Reject  == /\ l <= Len(Rec) /\ ~Matches(Rec[l], Rec[l].expect)
           /\ PrintT(<<"REJECT", ToJson([id |-> Rec[l].id, bydev |-> Matches(Rec[l], Rec[l].expectdev)])>>)
           /\ l' = l + 1
Next == Observe \/ Reject
Spec == Init /\ [][Next]_l
Consumed == (TLCGet("stats").diameter - 1 = Len(Rec)) \/ Print(<<"NOTE", "trace not consumed">>, FALSE)
=============================================================================
