-------------------------------- MODULE Eval --------------------------------
(* Reference semantics of the SassScript core (C03): lexical scoping with    *)
(* shared frames and closures, !global / !default, semi-global control flow, *)
(* @if/@else, @for, @each, @while, mixins with @content, functions with      *)
(* @return, argument binding, operators.                                     *)
(*                                                                           *)
(* A program is a flat sequence of instructions; a block instruction is      *)
(* closed by a matching "end".  The evaluator threads a state record.        *)
(*   frames  : sequence of frames (functions name -> entry), shared by id    *)
(*   env     : the current environment, a sequence of frame ids              *)
(*   semi    : in a semi-global scope (top level or control flow at top level)*)
(*   sel     : selector of the enclosing style rule ("" = none)              *)
(*   content : the content block in effect                                   *)
(*   out     : observations so far (declarations, @debug/@warn deliveries)   *)
(*   err/unk : an evaluation error happened / left the modelled core         *)
(*   ret     : value being returned by @return                               *)
EXTENDS Values

StepLimit == 300
NoRet     == [t |-> "noret"]
NoContent == [t |-> "nocontent"]

----------------------------------------------------------------------------
(* matching "end" of every block instruction *)
IsOpen(ins) == ins.op \in {"rule", "if", "elseif", "else", "for", "each", "while", "mixin", "function"}
               \/ (ins.op = "include" /\ ins.block)

RECURSIVE FindEnd(_, _, _)
FindEnd(p, i, d) ==            \* i: position to scan from, d: nesting depth
  IF i > Len(p) THEN Len(p) + 1
  ELSE IF p[i].op = "end" THEN (IF d = 0 THEN i ELSE FindEnd(p, i + 1, d - 1))
  ELSE IF IsOpen(p[i]) THEN FindEnd(p, i + 1, d + 1)
  ELSE FindEnd(p, i + 1, d)

MatchTable(p) == [i \in 1..Len(p) |-> IF IsOpen(p[i]) THEN FindEnd(p, i + 1, 0) ELSE 0]

----------------------------------------------------------------------------
(* environment *)

InnerIdx(st, env, k) ==
  LET S == {i \in 1..Len(env) : k \in DOMAIN st.frames[env[i]]}
  IN IF S = {} THEN 0 ELSE CHOOSE i \in S : \A j \in S : j <= i

Lookup(st, env, k) ==
  LET i == InnerIdx(st, env, k) IN IF i = 0 THEN Undef ELSE st.frames[env[i]][k]

SetIn(st, fid, k, v) ==
  [st EXCEPT !.frames[fid] = [x \in DOMAIN @ \cup {k} |-> IF x = k THEN v ELSE @[x]]]

EmptyFrame == [x \in {} |-> VNull]

Push(st) == [st EXCEPT !.frames = Append(@, EmptyFrame), !.env = Append(@, Len(st.frames) + 1)]
Pop(st)  == [st EXCEPT !.env = SubSeq(@, 1, Len(@) - 1)]

\* the frame index an assignment `$x: v` goes to (1-based position in env)
AssignIdx(st, k, global) ==
  IF global \/ Len(st.env) = 1 THEN 1
  ELSE LET i0 == InnerIdx(st, st.env, k)
           i1 == IF i0 = 0 THEN Len(st.env) ELSE i0
       IN IF ~st.semi /\ i1 = 1 THEN Len(st.env) ELSE i1    \* globals are shadowed outside semi-global scopes

Fail(st)    == [st EXCEPT !.err = TRUE]
Unknown(st) == [st EXCEPT !.unk = TRUE]
Stop(st)    == st.err \/ st.unk
Emit(st, o) == [st EXCEPT !.out = Append(@, o)]

VarKey(x) == "$" \o x
MixKey(m) == "@" \o m
FnKey(f)  == f \o "()"

----------------------------------------------------------------------------
(* operator precedence for flat operand/operator chains *)
Prec(op) == CASE op = "or" -> 1 [] op = "and" -> 2 [] op \in {"==", "!="} -> 3
              [] op \in {"<", ">", "<=", ">="} -> 4 [] op \in {"+", "-"} -> 5
              [] op \in {"*", "%"} -> 6

\* index (into ops) of the operator applied last: lowest precedence, rightmost (left-assoc)
SplitAt(ops, lo, hi) ==
  LET m == CHOOSE p \in {Prec(ops[i]) : i \in lo..hi} : \A i \in lo..hi : p <= Prec(ops[i])
  IN CHOOSE i \in lo..hi : Prec(ops[i]) = m /\ \A j \in lo..hi : Prec(ops[j]) = m => j <= i

RECURSIVE FlatTree(_, _, _, _)
\* tree for operands xs[lo..hi+1] joined by ops[lo..hi]
FlatTree(xs, ops, lo, hi) ==
  IF lo > hi THEN xs[lo]
  ELSE LET k == SplitAt(ops, lo, hi)
       IN [t |-> "bin", op |-> ops[k], l |-> FlatTree(xs, ops, lo, k - 1), r |-> FlatTree(xs, ops, k + 1, hi)]

----------------------------------------------------------------------------
(* evaluation; Ev returns [s |-> state, v |-> value] *)

RECURSIVE Ev(_, _)
RECURSIVE EvSeq(_, _, _)
RECURSIVE Exec(_, _, _)
RECURSIVE IfChain(_, _)
RECURSIVE ChainEnd(_, _)
RECURSIVE ForLoop(_, _, _, _, _, _)
RECURSIVE EachLoop(_, _, _, _, _)
RECURSIVE WhileLoop(_, _, _)
RECURSIVE BindRest(_, _, _, _, _)
RECURSIVE CallBody(_, _, _, _, _)

R(s, v) == [s |-> s, v |-> v]

\* evaluate a sequence of expressions left to right; v = sequence of values
EvSeq(st, es, i) ==
  IF i > Len(es) \/ Stop(st) THEN R(st, <<>>)
  ELSE LET a == Ev(st, es[i])
           b == EvSeq(a.s, es, i + 1)
       IN R(b.s, <<a.v>> \o b.v)

\* --- calling a user-defined callable ---------------------------------------
\* ins: the defining instruction (params, rest), clo: [at, env, content], pos/named: evaluated arguments,
\* named = sequence of <<name, value>>.  Runs body i..j-1 in the callee's environment.
NamedHas(named, n) == \E i \in 1..Len(named) : named[i][1] = n
NamedGet(named, n) == named[CHOOSE i \in 1..Len(named) : named[i][1] = n][2]

ArityOk(ins, pos, named) ==
  /\ (ins.rest = "" => Len(pos) <= Len(ins.params))
  /\ \A i \in 1..Len(named) :
        \/ \E k \in 1..Len(ins.params) : ins.params[k].n = named[i][1] /\ k > Len(pos)
        \/ (ins.rest # "" /\ ~\E k \in 1..Len(ins.params) : ins.params[k].n = named[i][1])
  /\ \A i, j \in 1..Len(named) : named[i][1] = named[j][1] => i = j

\* bind parameters k.. from named arguments or defaults (defaults evaluated in the callee scope,
\* earlier parameters visible)
BindRest(st, ins, pos, named, k) ==
  IF Stop(st) \/ k > Len(ins.params) THEN st
  ELSE LET prm == ins.params[k] IN
    IF k <= Len(pos) THEN BindRest(SetIn(st, st.env[Len(st.env)], VarKey(prm.n), pos[k]), ins, pos, named, k + 1)
    ELSE IF NamedHas(named, prm.n)
         THEN BindRest(SetIn(st, st.env[Len(st.env)], VarKey(prm.n), NamedGet(named, prm.n)), ins, pos, named, k + 1)
    ELSE IF prm.hasdef
         THEN LET d == Ev(st, prm.def)
              IN BindRest(SetIn(d.s, d.s.env[Len(d.s.env)], VarKey(prm.n), d.v), ins, pos, named, k + 1)
    ELSE Fail(st)

\* kind in {"mixin", "function", "content"}
CallBody(st, kind, clo, pos, named) ==
  LET ins == IF kind = "content" THEN [params |-> [i \in 1..Len(st.p[clo.at].using) |-> [n |-> st.p[clo.at].using[i], hasdef |-> FALSE]], rest |-> ""]
             ELSE st.p[clo.at]
      i == clo.at + 1
      j == st.mt[clo.at]
  IN
  IF ~ArityOk(ins, pos, named) THEN
     (IF ins.rest # "" /\ Len(named) > 0 THEN Unknown(st) ELSE Fail(st))
  ELSE
  LET extra == IF Len(pos) > Len(ins.params) THEN SubSeq(pos, Len(ins.params) + 1, Len(pos)) ELSE <<>>
      leftover == SelectSeq(named, LAMBDA nv : ~\E k \in 1..Len(ins.params) : ins.params[k].n = nv[1])
      s0 == Push([st EXCEPT !.env = clo.env, !.semi = FALSE,
                            !.content = IF kind = "mixin" THEN clo.callcontent ELSE IF kind = "content" THEN clo.content ELSE @,
                            !.infn = IF kind = "function" THEN TRUE ELSE @,
                            !.inmixin = IF kind = "mixin" THEN TRUE ELSE @])
      s1 == BindRest(s0, ins, pos, named, 1)
      s2 == IF ins.rest = "" \/ Stop(s1) THEN s1
            ELSE IF Len(leftover) > 0 THEN Unknown(s1)
            ELSE SetIn(s1, s1.env[Len(s1.env)], VarKey(ins.rest), VList(extra, "comma"))
      s3 == Exec(s2, i, j)
      s4 == IF kind = "function" /\ ~Stop(s3) /\ s3.ret = NoRet THEN Fail(s3) ELSE s3   \* finished without @return
  IN [s4 EXCEPT !.env = st.env, !.semi = st.semi, !.content = st.content, !.infn = st.infn, !.inmixin = st.inmixin]

Ev(st, e) ==
  IF Stop(st) THEN R(st, ErrV) ELSE
  CASE e.t \in {"int", "str", "qstr", "bool", "null"} -> R(st, e)
    [] e.t = "var" ->
         LET v == Lookup(st, st.env, VarKey(e.x)) IN
           IF v = Undef THEN R(Fail(st), ErrV) ELSE R(st, v)
    [] e.t = "flat" -> Ev(st, FlatTree(e.xs, e.ops, 1, Len(e.ops)))
    [] e.t = "bin" ->
         LET a == Ev(st, e.l) IN
         IF Stop(a.s) THEN a
         ELSE IF e.op = "and" THEN (IF Truthy(a.v) THEN Ev(a.s, e.r) ELSE a)      \* short circuit
         ELSE IF e.op = "or" THEN (IF Truthy(a.v) THEN a ELSE Ev(a.s, e.r))
         ELSE LET b == Ev(a.s, e.r) IN
              IF Stop(b.s) THEN b
              ELSE LET v == BinOp(e.op, a.v, b.v) IN
                   IF IsErr(v) THEN R(Fail(b.s), v) ELSE IF IsUnk(v) THEN R(Unknown(b.s), v) ELSE R(b.s, v)
    [] e.t = "not" -> LET a == Ev(st, e.e) IN IF Stop(a.s) THEN a ELSE R(a.s, VBool(~Truthy(a.v)))
    [] e.t = "neg" -> LET a == Ev(st, e.e) IN
                        IF Stop(a.s) THEN a
                        ELSE IF a.v.t = "int" THEN R(a.s, VInt(-a.v.v)) ELSE R(Unknown(a.s), UnkV)
    [] e.t = "ifx" -> LET c == Ev(st, e.c) IN                                     \* if() is lazy
                        IF Stop(c.s) THEN c ELSE IF Truthy(c.v) THEN Ev(c.s, e.a) ELSE Ev(c.s, e.b)
    [] e.t = "listx" -> LET xs == EvSeq(st, e.items, 1) IN
                          IF Stop(xs.s) THEN R(xs.s, ErrV) ELSE R(xs.s, VList(xs.v, e.sep))
    [] e.t = "mapx" -> LET ks == EvSeq(st, [i \in 1..Len(e.pairs) |-> e.pairs[i][1]], 1)
                           vs == EvSeq(ks.s, [i \in 1..Len(e.pairs) |-> e.pairs[i][2]], 1)
                       IN IF Stop(vs.s) THEN R(vs.s, ErrV)
                          ELSE IF \E i, j \in 1..Len(ks.v) : i # j /\ SassEq(ks.v[i], ks.v[j]) THEN R(Fail(vs.s), ErrV)
                          ELSE R(vs.s, VMap([i \in 1..Len(ks.v) |-> <<ks.v[i], vs.v[i]>>]))
    [] e.t = "call" ->
         LET clo == Lookup(st, st.env, FnKey(e.f)) IN
         IF clo = Undef THEN R(Unknown(st), UnkV)          \* a plain CSS function: outside the core
         ELSE LET ps == EvSeq(st, e.pos, 1)
                  ns == EvSeq(ps.s, [i \in 1..Len(e.named) |-> e.named[i][2]], 1)
              IN IF Stop(ns.s) THEN R(ns.s, ErrV)
                 ELSE LET s1 == CallBody([ns.s EXCEPT !.ret = NoRet], "function", clo, ps.v,
                                         [i \in 1..Len(e.named) |-> <<e.named[i][1], ns.v[i]>>])
                      IN IF Stop(s1) THEN R(s1, ErrV)
                         ELSE R([s1 EXCEPT !.ret = st.ret], s1.ret)

\* --- statements -------------------------------------------------------------

\* position just after an @if ... @else if ... @else chain that starts at i
ChainEnd(st, i) ==
  LET e == st.mt[i] IN
  IF e + 1 <= Len(st.p) /\ st.p[e + 1].op \in {"elseif", "else"} THEN ChainEnd(st, e + 1) ELSE e + 1

\* select the clause of the chain at i whose condition holds and run it in ONE new scope
IfChain(st, i) ==
  LET ins == st.p[i]  e == st.mt[i] IN
  IF ins.op = "else" THEN Pop(Exec(Push(st), i + 1, e))
  ELSE LET c == Ev(st, ins.c) IN
       IF Stop(c.s) THEN c.s
       ELSE IF Truthy(c.v) THEN Pop(Exec(Push(c.s), i + 1, e))
       ELSE IF e + 1 <= Len(st.p) /\ st.p[e + 1].op \in {"elseif", "else"} THEN IfChain(c.s, e + 1)
       ELSE Pop(Push(c.s))

\* @for: one scope for the whole loop, the variable rebound each turn
ForLoop(st, i, x, cur, stop, dir) ==
  IF Stop(st) \/ st.ret # NoRet \/ cur = stop THEN st
  ELSE LET s1 == SetIn(st, st.env[Len(st.env)], VarKey(x), VInt(cur))
           s2 == Exec(s1, i + 1, st.mt[i])
       IN ForLoop(s2, i, x, cur + dir, stop, dir)

EachLoop(st, i, xs, items, k) ==
  IF Stop(st) \/ st.ret # NoRet \/ k > Len(items) THEN st
  ELSE LET it == items[k]
           fid == st.env[Len(st.env)]
           RECURSIVE BindAll(_, _)
           BindAll(s, n) ==
             IF n > Len(xs) THEN s
             ELSE LET parts == AsList(it)
                      v == IF Len(xs) = 1 THEN it ELSE IF n <= Len(parts) THEN parts[n] ELSE VNull
                  IN BindAll(SetIn(s, fid, VarKey(xs[n]), v), n + 1)
           s1 == BindAll(st, 1)
           s2 == Exec(s1, i + 1, st.mt[i])
       IN EachLoop(s2, i, xs, items, k + 1)

WhileLoop(st, i, fuel) ==
  IF Stop(st) \/ st.ret # NoRet THEN st
  ELSE IF fuel = 0 THEN Unknown(st)
  ELSE LET c == Ev(st, st.p[i].c) IN
       IF Stop(c.s) THEN c.s
       ELSE IF ~Truthy(c.v) THEN c.s
       ELSE WhileLoop(Exec(c.s, i + 1, st.mt[i]), i, fuel - 1)

HasContent(st, i) == \E k \in (i + 1)..(st.mt[i] - 1) : st.p[k].op = "content"

Exec(st0, i, j) ==
  IF i >= j \/ Stop(st0) \/ st0.ret # NoRet THEN st0
  ELSE IF st0.steps > StepLimit THEN Unknown(st0)              \* too long for the reference evaluator: not judged
  ELSE LET ins == st0.p[i]  st == [st0 EXCEPT !.steps = @ + 1] IN
  CASE ins.op = "decl" ->
         LET k == VarKey(ins.x)
             cur == Lookup(st, st.env, k)
         IN IF ins.d /\ cur # Undef /\ cur # VNull THEN Exec(st, i + 1, j)        \* !default keeps a non-null value
            ELSE LET r == Ev(st, ins.e) IN
                 IF Stop(r.s) THEN r.s
                 ELSE Exec(SetIn(r.s, r.s.env[AssignIdx(r.s, k, ins.g)], k, r.v), i + 1, j)
    [] ins.op = "prop" ->
         LET r == Ev(st, ins.e) IN
         IF Stop(r.s) THEN r.s
         ELSE IF r.s.sel = "" THEN Fail(r.s)                        \* declarations need a style rule
         ELSE IF r.v.t = "map" \/ CssText(r.v) = NoCss THEN Fail(r.s)
         ELSE IF Invisible(r.v) THEN Exec(r.s, i + 1, j)
         ELSE Exec(Emit(r.s, [k |-> "decl", sel |-> r.s.sel, prop |-> ins.p, val |-> CssText(r.v)]), i + 1, j)
    [] ins.op \in {"debug", "warn"} ->
         LET r == Ev(st, ins.e) IN
         IF Stop(r.s) THEN r.s
         ELSE IF ins.op = "warn" /\ Splice(r.v) = NoCss THEN Fail(r.s)
         ELSE Exec(Emit(r.s, [k |-> ins.op, msg |-> IF IsStringy(r.v) THEN r.v.v                       \* a string is shown as its text
                                                           ELSE IF ins.op = "debug" THEN Inspect(r.v) ELSE Splice(r.v),
                                                   at |-> i]), i + 1, j)
    [] ins.op = "error" ->
         LET r == Ev(st, ins.e) IN IF Stop(r.s) THEN r.s
                                   ELSE [Fail(r.s) EXCEPT !.einfo = [msg |-> Inspect(r.v), at |-> i]]   \* @error reports inspect(value)
    [] ins.op = "rule" ->
         LET e == st.mt[i]
             s1 == Push([st EXCEPT !.semi = FALSE,
                                   !.sel = IF st.sel = "" THEN ins.sel ELSE st.sel \o " " \o ins.sel])
             s2 == Exec(s1, i + 1, e)
         IN Exec([Pop(s2) EXCEPT !.semi = st.semi, !.sel = st.sel], e + 1, j)
    [] ins.op = "if" -> Exec(IfChain(st, i), ChainEnd(st, i), j)
    [] ins.op \in {"elseif", "else"} -> Fail(st)                                    \* dangling @else
    [] ins.op = "for" ->
         LET a == Ev(st, ins.from)
             b == Ev(a.s, ins.to)
             e == st.mt[i]
         IN IF Stop(b.s) THEN b.s
            ELSE IF a.v.t # "int" \/ b.v.t # "int" THEN Fail(b.s)
            ELSE LET dir == IF a.v.v > b.v.v THEN -1 ELSE 1
                     stop == IF ins.incl THEN b.v.v + dir ELSE b.v.v
                 IN IF a.v.v = stop THEN Exec(b.s, e + 1, j)
                    ELSE Exec(Pop(ForLoop(Push(b.s), i, ins.x, a.v.v, stop, dir)), e + 1, j)
    [] ins.op = "each" ->
         LET l == Ev(st, ins.e)  e == st.mt[i] IN
         IF Stop(l.s) THEN l.s
         ELSE Exec(Pop(EachLoop(Push(l.s), i, ins.xs, AsList(l.v), 1)), e + 1, j)
    [] ins.op = "while" ->
         LET e == st.mt[i] IN Exec(Pop(WhileLoop(Push(st), i, st.fuel)), e + 1, j)
    [] ins.op = "mixin" ->
         Exec(SetIn(st, st.env[Len(st.env)], MixKey(ins.name),
                    [t |-> "closure", at |-> i, env |-> st.env, content |-> st.content]), st.mt[i] + 1, j)
    [] ins.op = "function" ->
         Exec(SetIn(st, st.env[Len(st.env)], FnKey(ins.name),
                    [t |-> "closure", at |-> i, env |-> st.env, content |-> st.content]), st.mt[i] + 1, j)
    [] ins.op = "include" ->
         LET clo == Lookup(st, st.env, MixKey(ins.name))
             nxt == IF ins.block THEN st.mt[i] + 1 ELSE i + 1
         IN IF clo = Undef THEN Fail(st)
            ELSE IF ins.block /\ ~HasContent(st, clo.at) THEN Fail(st)            \* mixin takes no content block
            ELSE LET ps == EvSeq(st, ins.pos, 1)
                     ns == EvSeq(ps.s, [n \in 1..Len(ins.named) |-> ins.named[n][2]], 1)
                     cc == IF ins.block THEN [t |-> "closure", at |-> i, env |-> st.env, content |-> st.content]
                           ELSE NoContent
                 IN IF Stop(ns.s) THEN ns.s
                    ELSE Exec(CallBody(ns.s, "mixin", [clo EXCEPT !.content = clo.content] @@ [callcontent |-> cc],
                                       ps.v, [n \in 1..Len(ins.named) |-> <<ins.named[n][1], ns.v[n]>>]), nxt, j)
    [] ins.op = "content" ->
         IF st.content = NoContent THEN Exec(st, i + 1, j)                          \* no block was passed: nothing
         ELSE LET ps == EvSeq(st, ins.args, 1) IN
              IF Stop(ps.s) THEN ps.s
              ELSE Exec(CallBody(ps.s, "content", st.content, ps.v, <<>>), i + 1, j)
    [] ins.op = "return" ->
         LET r == Ev(st, ins.e) IN IF Stop(r.s) THEN r.s ELSE [r.s EXCEPT !.ret = r.v]
    [] ins.op = "end" -> Fail(st)

InitState(p, fuel) ==
  [p |-> p, mt |-> MatchTable(p), frames |-> <<EmptyFrame>>, env |-> <<1>>, semi |-> TRUE, sel |-> "",
   content |-> NoContent, infn |-> FALSE, inmixin |-> FALSE, out |-> <<>>, err |-> FALSE, unk |-> FALSE,
   ret |-> NoRet, fuel |-> fuel, steps |-> 0, einfo |-> [msg |-> "", at |-> 0]]

Run(p, fuel) == Exec(InitState(p, fuel), 1, Len(p) + 1)

\* what must be observed: "error", "unknown" (not judged) or the observation list
Outcome(p, fuel) ==
  LET s == Run(p, fuel) IN
  IF s.unk THEN [k |-> "unknown", out |-> <<>>]
  ELSE IF s.err THEN [k |-> "error", out |-> <<>>]
  ELSE [k |-> "ok", out |-> s.out]

\* design-level invariant of the semantics itself: after a complete run the environment is balanced
Balanced(p, fuel) == LET s == Run(p, fuel) IN (~s.err /\ ~s.unk) => (s.env = <<1>> /\ s.semi /\ s.sel = "")
=============================================================================
