----------------------------- MODULE MC_History -----------------------------
(* Enumerates (a) every single-thread history of at most MaxHist jobs over   *)
(* the prior-job alphabet followed by an observed job, (b) every assignment  *)
(* of job sequences to the threads of one process, as schedules for the      *)
(* harness.  Job ids are indices into the job pool the checker supplies.     *)
EXTENDS History, TLC, Json

Emit == (\A t \in Threads : running[t] = NoJob) /\ (\E t \in Threads : hist[t] # <<>>)
          => PrintT(<<"CASE", ToJson([sched |-> [t \in Threads |-> hist[t]]])>>)
=============================================================================
