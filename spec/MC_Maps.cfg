SPECIFICATION Spec
CONSTANTS MaxOps = 2
INVARIANTS KeysUnique OrderKept Emit
CHECK_DEADLOCK FALSE
