------------------------------- MODULE Scopes -------------------------------
(* The abstract rule of variable resolution and assignment, stated over what *)
(* one scope operation can see: the positions (0-based, innermost last) of   *)
(* the frames of the current environment that declare the name, and the      *)
(* depth of the environment.  Eval.tla uses the same rule over whole frames; *)
(* Trace_Scopes checks every scope operation the implementation performs     *)
(* against it.                                                               *)
EXTENDS Integers, Sequences, FiniteSets

Max(S) == CHOOSE x \in S : \A y \in S : y <= x

\* a lookup answers the innermost declaring frame, or -1 (none)
Resolve(in) == IF in = {} THEN -1 ELSE Max(in)

\* the frame an assignment `$x: v` goes to
AssignTarget(in, len, global, semi) ==
  IF global \/ len = 1 THEN 0
  ELSE LET i1 == IF in = {} THEN len - 1 ELSE Max(in)
       IN IF ~semi /\ i1 = 0 THEN len - 1 ELSE i1
=============================================================================
