----------------------------- MODULE MC_Imports -----------------------------
(* Generator for C13: a virtual directory layout is populated file by file   *)
(* (one action per file), an importer location, a load-path list, a URL and  *)
(* the kind of rule are chosen, and the case is printed with the file the    *)
(* specification resolves to and the set of paths the search may touch.      *)
EXTENDS ImportSearch, TLC, Json

CONSTANTS MaxFiles, Urls, Kinds, Importers, LoadPathLists

VARIABLES stage, url, kind, importer, lps, files, done
vars == <<stage, url, kind, importer, lps, files, done>>

U(d, b, e) == [dir |-> d, base |-> b, ext |-> e]
UrlOf(n) == CASE n = "foo" -> U("", "foo", "") [] n = "d/foo" -> U("d/", "foo", "")
              [] n = "foo.bar" -> U("", "foo.bar", "") [] n = "foo.scss" -> U("", "foo", ".scss")
              [] n = "foo.sass" -> U("", "foo", ".sass") [] n = "foo.css" -> U("", "foo", ".css")
              [] n = "d/foo.scss" -> U("d/", "foo", ".scss")

LpOf(n) == CASE n = 0 -> <<>> [] n = 1 -> <<"lp1">> [] n = 2 -> <<"lp1", "lp2">>
\* importer "both": the entry file (root) imports the URL and then imports sub/go, which imports the same URL
\* again from its own directory - two searches for one URL in one compilation
ImpDir(n) == IF n = "sub" THEN "sub/" ELSE ""
LocsFrom(d) == <<d>> \o [i \in 1..Len(lps) |-> lps[i] \o "/"]
Locs == LocsFrom(ImpDir(importer))
Locs2 == LocsFrom("sub/")
GoUrl == U("sub/", "go", "")
ForImport == kind = "import"

\* files that may be created: every candidate at every location, plus decoys that are never candidates
DecoyNames == {ImpDir(importer) \o url.dir \o "foo.txt", ImpDir(importer) \o url.dir \o url.base \o ".scss.bak",
           ImpDir(importer) \o url.dir \o "foo.scss", ImpDir(importer) \o url.dir \o "foo..importscss",
           "other/" \o url.dir \o url.base \o ".scss"}
Decoys == DecoyNames \ Confinement(Locs, url, TRUE)
Universe == Confinement(Locs, url, TRUE) \cup Decoys
            \cup (IF importer = "both" THEN Confinement(Locs2, url, TRUE) ELSE {})

Init == /\ stage = "setup" /\ url = U("", "foo", "") /\ kind = "import" /\ importer = "root"
        /\ lps = <<>> /\ files = {} /\ done = FALSE

Setup(u, k, im, lp) ==
  /\ stage = "setup"
  /\ url' = UrlOf(u) /\ kind' = k /\ importer' = im /\ lps' = LpOf(lp)
  /\ stage' = "files" /\ UNCHANGED <<files, done>>

AddFile(p) ==
  /\ stage = "files" /\ Cardinality(files) < MaxFiles /\ p \notin files
  /\ Unambiguous(Locs, url, ForImport, files \cup {p})
  /\ (importer = "both" => Unambiguous(Locs2, url, ForImport, files \cup {p}))
  /\ files' = files \cup {p} /\ UNCHANGED <<stage, url, kind, importer, lps, done>>

Finish == /\ stage = "files" /\ ~done /\ done' = TRUE /\ UNCHANGED <<stage, url, kind, importer, lps, files>>

Next == \/ \E u \in Urls, k \in Kinds, im \in Importers, lp \in LoadPathLists : Setup(u, k, im, lp)
        \/ \E p \in Universe : AddFile(p)
        \/ Finish
Spec == Init /\ [][Next]_vars

----------------------------------------------------------------------------
(* design-level checks on the specification itself *)

\* the resolved file is a candidate, exists, and nothing of higher priority exists anywhere earlier
ResolveSound ==
  stage = "files" =>
    LET r == Resolve(Locs, url, ForImport, files) IN
      /\ (r # "" => r \in files /\ r \in Confinement(Locs, url, ForImport))
      /\ (r = "" <=> Confinement(Locs, url, ForImport) \cap files = {})
\* adding a decoy never changes the outcome
DecoysInert ==
  stage = "files" => Resolve(Locs, url, ForImport, files) = Resolve(Locs, url, ForImport, files \ Decoys)

UrlText == url.dir \o url.base \o url.ext
EmitCase ==
  done => PrintT(<<"CASE", ToJson([url |-> UrlText, kind |-> kind, importer |-> importer, lps |-> lps,
                                   files |-> files, resolved |-> Resolve(Locs, url, ForImport, files),
                                   syntax |-> SyntaxOf(Resolve(Locs, url, ForImport, files)),
                                   resolved2 |-> IF importer = "both" THEN Resolve(Locs2, url, ForImport, files) ELSE "",
                                   syntax2 |-> IF importer = "both" THEN SyntaxOf(Resolve(Locs2, url, ForImport, files)) ELSE "",
                                   confinement |-> Confinement(Locs, url, ForImport)
                                      \cup (IF importer = "both"
                                            THEN Confinement(Locs2, url, ForImport) \cup Confinement(Locs, GoUrl, ForImport)
                                            ELSE {}),
                                   dirtests |-> DirTests(Locs, url)
                                      \cup (IF importer = "both" THEN DirTests(Locs2, url) \cup DirTests(Locs, GoUrl) ELSE {}),
                                   plaincss |-> (kind = "import" /\ url.ext = ".css")])>>)
=============================================================================
