------------------------------ MODULE MC_Selectors ------------------------------
(* Enumerates complex selectors compound by compound (one action each) over a  *)
(* menu of compounds and the four combinators, with their text.  Used for the  *)
(* operands of the selector functions (C11) and for rules, extenders and       *)
(* targets of @extend (C10).                                                   *)
EXTENDS Selectors, TLC, Json

CONSTANTS MaxCompounds, Menu, Combs,
          Derive        \* TRUE: also build a second selector by inserting one more compound somewhere into the first

VARIABLES cx, txt, done, cx2, txt2
vars == <<cx, txt, done, cx2, txt2>>

Cmp(t, c, nots, iss) == [type |-> t, cls |-> c, nots |-> nots, iss |-> iss]
One(c) == << << [comb |-> "", cmp |-> c] >> >>            \* a selector list holding one compound
\* name -> <<text, compound>>
Compound(name) ==
  CASE name = "a" -> <<"a", Cmp("a", <<>>, <<>>, <<>>)>>
    [] name = "b" -> <<"b", Cmp("b", <<>>, <<>>, <<>>)>>
    [] name = ".x" -> <<".x", Cmp("", <<"x">>, <<>>, <<>>)>>
    [] name = ".y" -> <<".y", Cmp("", <<"y">>, <<>>, <<>>)>>
    [] name = "a.x" -> <<"a.x", Cmp("a", <<"x">>, <<>>, <<>>)>>
    [] name = "b.y" -> <<"b.y", Cmp("b", <<"y">>, <<>>, <<>>)>>
    [] name = ".x.y" -> <<".x.y", Cmp("", <<"x", "y">>, <<>>, <<>>)>>
    [] name = "*" -> <<"*", Cmp("*", <<>>, <<>>, <<>>)>>
    [] name = ":not(.x)" -> <<":not(.x)", Cmp("", <<>>, << One(Cmp("", <<"x">>, <<>>, <<>>)) >>, <<>>)>>
    [] name = "a:not(.y)" -> <<"a:not(.y)", Cmp("a", <<>>, << One(Cmp("", <<"y">>, <<>>, <<>>)) >>, <<>>)>>
    [] name = ":is(.x, b)" -> <<":is(.x, b)", Cmp("", <<>>, <<>>, << << <<[comb |-> "", cmp |-> Cmp("", <<"x">>, <<>>, <<>>)]>>,
                                                                          <<[comb |-> "", cmp |-> Cmp("b", <<>>, <<>>, <<>>)]>> >> >>)>>
    [] name = ".y:not(.x)" -> <<".y:not(.x)", Cmp("", <<"y">>, << One(Cmp("", <<"x">>, <<>>, <<>>)) >>, <<>>)>>
    [] name = ":not(.x.y)" -> <<":not(.x.y)", Cmp("", <<>>, << One(Cmp("", <<"x", "y">>, <<>>, <<>>)) >>, <<>>)>>
    [] name = ":not(.y)" -> <<":not(.y)", Cmp("", <<>>, << One(Cmp("", <<"y">>, <<>>, <<>>)) >>, <<>>)>>
    [] name = ":is(.x.y)" -> <<":is(.x.y)", Cmp("", <<>>, <<>>, << One(Cmp("", <<"x", "y">>, <<>>, <<>>)) >>)>>
    [] name = ":is(.x)" -> <<":is(.x)", Cmp("", <<>>, <<>>, << One(Cmp("", <<"x">>, <<>>, <<>>)) >>)>>
    [] name = ":not(a.x)" -> <<":not(a.x)", Cmp("", <<>>, << One(Cmp("a", <<"x">>, <<>>, <<>>)) >>, <<>>)>>

Init == cx = <<>> /\ txt = "" /\ done = FALSE /\ cx2 = <<>> /\ txt2 = ""
Add(comb, name) ==
  /\ ~done /\ Len(cx) < MaxCompounds
  /\ (cx = <<>>) = (comb = "")
  /\ cx' = Append(cx, [comb |-> comb, cmp |-> Compound(name)[2]])
  /\ txt' = (IF comb = "" THEN "" ELSE IF comb = " " THEN txt \o " " ELSE txt \o " " \o comb \o " ") \o Compound(name)[1]
  /\ UNCHANGED <<done, cx2, txt2>>
Finish == ~done /\ Len(cx) > 0 /\ done' = TRUE /\ UNCHANGED <<cx, txt, cx2, txt2>>

\* the text of a complex selector
RECURSIVE TextOf(_, _, _)
TextOf(c, names, i) == IF i > Len(c) THEN "" ELSE
   (IF c[i].comb = "" THEN "" ELSE IF c[i].comb = " " THEN " " ELSE " " \o c[i].comb \o " ") \o names[i] \o TextOf(c, names, i + 1)
\* insert compound `name` with combinator `comb` so that it becomes component p (1..Len+1) of the selector
InsertAt(p, comb, name, mode) ==
  /\ Derive /\ done /\ cx2 = <<>>
  /\ LET new == [comb |-> comb, cmp |-> Compound(name)[2]]
         before == SubSeq(cx, 1, p - 1)
         after == SubSeq(cx, p, Len(cx))
         fixed == IF p = 1 THEN <<[new EXCEPT !.comb = ""]>> \o (IF Len(after) > 0 THEN <<[after[1] EXCEPT !.comb = comb]>> \o SubSeq(after, 2, Len(after)) ELSE <<>>)
                  ELSE IF mode = 0 \/ Len(after) = 0 THEN before \o <<new>> \o after
                  \* mode 1: the new compound takes over the combinator that was there, the displaced one gets `comb`
                  ELSE before \o <<[new EXCEPT !.comb = after[1].comb]>> \o <<[after[1] EXCEPT !.comb = comb]>> \o SubSeq(after, 2, Len(after))
     IN cx2' = fixed
  /\ txt2' = name
  /\ UNCHANGED <<cx, txt, done>>
Next == (\E c \in Combs \cup {""}, n \in Menu : Add(c, n)) \/ Finish
        \/ (\E p \in 1..(Len(cx) + 1), c \in Combs, n \in Menu, md \in {0, 1} : InsertAt(p, c, n, md))
Spec == Init /\ [][Next]_vars

\* model-level sanity: every generated selector matches at least one element of the DOM universe or none - and is
\* equivalent to itself
SelfSame == done => SameMeaning(<<cx>>, <<cx>>)
Satisfiable == \E dom \in Doms : \E n \in 1..Len(dom) : Matches(<<cx>>, dom, n)
Emit == (done /\ (Derive => cx2 # <<>>)) => PrintT(<<"CASE", ToJson([text |-> txt, ast |-> cx, sat |-> Satisfiable, ast2 |-> cx2])>>)
=============================================================================
