------------------------------ MODULE Trace_Agree ------------------------------
(* One event per program (C18): the observations of all its variants - the     *)
(* SCSS rendering, the indented rendering and the variation descriptors applied *)
(* to either - plus the plain-CSS facts.  Explained when they agree.           *)
EXTENDS Naturals, Sequences, TLC, Json, IOUtils

VARIABLES l
Rec == ndJsonDeserialize(IOEnv.TRACE)

\* obs: [outcome, css, msgs]
Same(a, b) == a.outcome = b.outcome /\ (a.outcome = "css" => a.css = b.css /\ a.msgs = b.msgs)

Agree(r) == \A i \in 1..Len(r.variants) : Same(r.variants[1], r.variants[i])

\* plain CSS: Sass-only constructs are rejected in CSS mode; Sass-free flat CSS means the same in CSS and SCSS mode
CssModeOk(r) ==
  /\ (r.sassonly => r.ascss.outcome = "error")
  /\ (r.plain => Same(r.ascss, r.variants[1]))
  /\ r.ascss2.outcome = r.ascss.outcome        \* a statement at-rule in front ('@layer a, b;') does not change what CSS mode accepts

Allowed(r) == Agree(r) /\ CssModeOk(r)

Init == l = 1
Observe == l <= Len(Rec) /\ (Allowed(Rec[l]) = TRUE) /\ l' = l + 1
Reject  == /\ l <= Len(Rec) /\ (Allowed(Rec[l]) = FALSE)
           /\ PrintT(<<"REJECT", ToJson([id |-> Rec[l].id, agree |-> Agree(Rec[l]), cssmode |-> CssModeOk(Rec[l]),
                                          first |-> IF Agree(Rec[l]) THEN 0 ELSE
                                             CHOOSE i \in 1..Len(Rec[l].variants) : ~Same(Rec[l].variants[1], Rec[l].variants[i])])>>)
           /\ l' = l + 1
Next == Observe \/ Reject
Spec == Init /\ [][Next]_l
Consumed == (TLCGet("stats").diameter - 1 = Len(Rec)) \/ Print(<<"NOTE", "trace not consumed">>, FALSE)
=============================================================================
