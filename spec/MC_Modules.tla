----------------------------- MODULE MC_Modules -----------------------------
(* Generator for C12: chooses the decorations of the three edges of the      *)
(* project and one probe (one action each), renders the three files, and     *)
(* prints the case with what ModuleGraph expects.                            *)
EXTENDS ModuleGraph, TLC, Json

CONSTANTS Probes, Spellings

VARIABLES stage, e1, e12, e2, probe
vars == <<stage, e1, e12, e2, probe>>

E1s == [ns : {"m1", "n", "*"}, with : {"none", "a1", "c1", "zz", "a2"}]
E12s == {[k |-> "none", show |-> "all", prefix |-> "", with |-> "none"]}
        \cup [k : {"use"}, show : {"all"}, prefix : {""}, with : {"none", "a2"}]
        \cup [k : {"fwd"}, show : {"all", "show-a2", "show-f2", "hide-a2"}, prefix : {"", "p-"}, with : {"none", "a2"}]
E2s == {[pos |-> "none", spell |-> "m2"]} \cup [pos : {"before", "after"}, spell : Spellings]

Init == /\ stage = 1 /\ e1 = [ns |-> "m1", with |-> "none"]
        /\ e12 = [k |-> "none", show |-> "all", prefix |-> "", with |-> "none"]
        /\ e2 = [pos |-> "none", spell |-> "m2"] /\ probe = "none"

Choose1(x) == stage = 1 /\ e1' = x /\ stage' = 2 /\ UNCHANGED <<e12, e2, probe>>
Choose12(x) == /\ stage = 2 /\ (e1.with = "a2" => x.k = "fwd")      \* configuring $a2 through m1 only makes sense via @forward
               /\ ~(e1.with = "a2" /\ x.with = "a2")                 \* not configured twice
               /\ ~(e1.with = "a2" /\ x.prefix # "" /\ x.show \in {"show-a2", "hide-a2"})   \* left open: show/hide list + prefix + pass-through configuration
               /\ e12' = x /\ stage' = 3 /\ UNCHANGED <<e1, e2, probe>>
Choose2(x) == /\ stage = 3
              /\ (e1.with = "a2" => x.pos = "none")                   \* left out: pass-through configuration of an already loaded module
              /\ e2' = x /\ stage' = 4 /\ UNCHANGED <<e1, e12, probe>>
ChooseProbe(p) == /\ stage = 4 /\ ProbeOk(p, e1, e12, e2)
                  /\ probe' = p /\ stage' = 5 /\ UNCHANGED <<e1, e12, e2>>

Next == \/ \E x \in E1s : Choose1(x)
        \/ \E y \in E12s : Choose12(y)
        \/ \E z \in E2s : Choose2(z)
        \/ \E p \in Probes : ChooseProbe(p)
Spec == Init /\ [][Next]_vars

----------------------------------------------------------------------------
(* design-level checks *)
\* narrowing a show list never makes a member appear
ShowMonotone == \A s \in {"show-a2", "show-f2", "hide-a2"} :
                  LET narrow == [k |-> "fwd", show |-> s, prefix |-> "", with |-> "none"]
                      wide == [k |-> "fwd", show |-> "all", prefix |-> "", with |-> "none"]
                  IN (VarShown(narrow) => VarShown(wide)) /\ (FnShown(narrow) => FnShown(wide))
\* a module is listed once in every load order
LoadOnce == stage >= 4 => LET o == LoadOrder(e12, e2) IN \A i, j \in 1..Len(o) : o[i] = o[j] => i = j

----------------------------------------------------------------------------
(* rendering *)
\* unless m1 forwards m2, m2 also has its own configurable $a1 (same name as m1's): a configuration
\* meant for m1 must not reach it
M2File == <<"@debug \"load m2\";", "$a2: v2 !default;", "$-p2: priv2;", "$c2: fixed2;",
            "@function f2() { @return $a2; }", "@mixin mx2 { mark: mx2-#{$a2}; }">>
          \o (IF e12.k = "fwd" THEN <<".m2 { k: $a2; }">>
              ELSE <<"$a1: w2 !default;", ".m2 { k: $a2; j: $a1; }">>)

WithA2(pfx) == " with ($" \o pfx \o "a2: c2)"
E12Line ==
  CASE e12.k = "none" -> <<>>
    [] e12.k = "use" -> <<"@use \"m2\"" \o (IF e12.with = "a2" THEN WithA2("") ELSE "") \o ";">>
    [] e12.k = "fwd" -> <<"@forward \"m2\""
                          \o (IF e12.prefix # "" THEN " as " \o e12.prefix \o "*" ELSE "")
                          \o (CASE e12.show = "show-a2" -> " show $" \o e12.prefix \o "a2"
                                [] e12.show = "show-f2" -> " show " \o e12.prefix \o "f2"
                                [] e12.show = "hide-a2" -> " hide $" \o e12.prefix \o "a2"
                                [] OTHER -> "")
                          \o (IF e12.with = "a2" THEN WithA2("") ELSE "") \o ";">>

M1File == E12Line \o <<"@debug \"load m1\";", "$a1: v1 !default;", "$-p1: priv1;", "$c1: fixed1;",
                       "@function f1() { @return $a1; }">>
          \o (IF e12.k = "use" THEN <<"@function g1() { @return m2.$a2; }">> ELSE <<>>)
          \o <<"@mixin mx1 { mark: mx1-#{$a1}; }", ".m1 { k: $a1; }">>

N == IF e1.ns = "*" THEN "" ELSE e1.ns \o "."
Use1 == "@use \"m1\"" \o (CASE e1.ns = "n" -> " as n" [] e1.ns = "*" -> " as *" [] OTHER -> "")
        \o (CASE e1.with = "a1" -> " with ($a1: c1)" [] e1.with = "c1" -> " with ($c1: x)"
              [] e1.with = "zz" -> " with ($zz: x)" [] e1.with = "a2" -> WithA2(e12.prefix) [] OTHER -> "") \o ";"
Use2 == "@use \"" \o e2.spell \o "\" as m2;"

ProbeLines ==
  CASE probe = "a1" -> <<".out { r: " \o N \o "$a1; }">>
    [] probe = "f1" -> <<".out { r: " \o N \o "f1(); }">>
    [] probe = "mx1" -> <<".out { @include " \o N \o "mx1; }">>
    [] probe = "priv1" -> <<".out { r: " \o N \o "$-p1; }">>
    [] probe = "fwd-a2" -> <<".out { r: " \o N \o "$" \o e12.prefix \o "a2; }">>
    [] probe = "fwd-f2" -> <<".out { r: " \o N \o e12.prefix \o "f2(); }">>
    [] probe = "fwd-mx2" -> <<".out { @include " \o N \o e12.prefix \o "mx2; }">>
    [] probe = "fwd-priv2" -> <<".out { r: " \o N \o "$" \o e12.prefix \o "-p2; }">>
    [] probe = "fwd-unprefixed" -> <<".out { r: " \o N \o "$a2; }">>
    [] probe = "set-a1" -> <<N \o "$a1: new;", ".out { r: " \o N \o "f1(); }">>
    [] probe = "diamond" -> <<"m2.$a2: new;", ".out { r: " \o N \o "g1(); }">>
    [] probe = "unused-ns" -> <<".out { r: $a1; }">>
    [] probe = "none" -> <<".out { r: x; }">>

Entry == (IF e2.pos = "before" THEN <<Use2>> ELSE <<>>) \o <<Use1>>
         \o (IF e2.pos = "after" THEN <<Use2>> ELSE <<>>) \o ProbeLines

EmitCase == stage = 5 =>
  PrintT(<<"CASE", ToJson([entry |-> Entry, m1 |-> M1File, m2 |-> M2File,
                           e1 |-> e1, e12 |-> e12, e2 |-> e2, probe |-> probe,
                           expect |-> Expect({}, probe, e1, e12, e2),
                           expectdev |-> Expect({"D_fwd_with_on_loaded_module_ignored"}, probe, e1, e12, e2)])>>)
=============================================================================
