SPECIFICATION Spec
CONSTANTS
  Ops = {"+", "-", "%", "<", ">=", "==", "!=", "*", "compatible", "unit", "unit*", "div", "unitdiv", "min", "max", "min3", "max3", "divmul", "muldiv"}
  M1 = 3
  M2 = 2
  UnitsUsed = {"px", "in", "cm", "mm", "q", "pt", "pc", "deg", "grad", "rad", "turn", "s", "ms", "Hz", "kHz", "dpi", "dpcm", "dppx", "em", "rem", "lh", "ex", "ch", "cap", "ic", "rlh", "vw", "vh", "vmin", "vmax", "vi", "vb", "fr", "%", "foo"}
INVARIANTS RoundTrip Transitive ClassesPartition Emit
CHECK_DEADLOCK FALSE
