SPECIFICATION Spec
CONSTANTS
  MaxOuter = 2
  MaxInner = 2
  MaxMid = 0
  Spellings = {"lower"}
  Shapes = {0, 1}
  WithOr = TRUE
  Small = TRUE
INVARIANTS PairSound ListSound EmptyIsRecognised Emit
CHECK_DEADLOCK FALSE
