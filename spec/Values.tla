------------------------------- MODULE Values -------------------------------
(* The SassScript value universe of the modelled core and the operations the *)
(* evaluator needs: truthiness, equality, arithmetic, comparison, string     *)
(* concatenation, and the text of a value (inspect / CSS).                   *)
EXTENDS Integers, Sequences, FiniteSets, TLC

VInt(n)    == [t |-> "int", v |-> n]
VStr(s)    == [t |-> "str", v |-> s]           \* unquoted string (identifier)
VQStr(s)   == [t |-> "qstr", v |-> s]          \* quoted string
VBool(b)   == [t |-> "bool", v |-> b]
VNull     == [t |-> "null"]
VList(xs, sep) == [t |-> "list", v |-> xs, sep |-> sep]     \* sep in {"space", "comma"}
VMap(ps)   == [t |-> "map", v |-> ps]                      \* sequence of <<key, value>>
Undef     == [t |-> "undef"]                               \* not a value: failed lookup
ErrV      == [t |-> "error"]                               \* not a value: evaluation error
UnkV      == [t |-> "unknown"]                             \* outside the modelled core

IsErr(v) == v.t = "error"
IsUnk(v) == v.t = "unknown"

Truthy(v) == ~(v.t = "null" \/ (v.t = "bool" /\ v.v = FALSE))

IsStringy(v) == v.t \in {"str", "qstr"}

RECURSIVE SassEq(_, _)
SassEq(a, b) ==
  CASE a.t = "int" /\ b.t = "int" -> a.v = b.v
    [] IsStringy(a) /\ IsStringy(b) -> a.v = b.v                 \* quotes do not matter
    [] a.t = "bool" /\ b.t = "bool" -> a.v = b.v
    [] a.t = "null" /\ b.t = "null" -> TRUE
    [] a.t = "list" /\ b.t = "list" ->
         /\ Len(a.v) = Len(b.v)
         /\ (Len(a.v) > 1 => a.sep = b.sep)
         /\ \A i \in 1..Len(a.v) : SassEq(a.v[i], b.v[i])
    [] a.t = "map" /\ b.t = "map" ->
         /\ Len(a.v) = Len(b.v)
         /\ \A i \in 1..Len(a.v) : \E j \in 1..Len(b.v) :
              SassEq(a.v[i][1], b.v[j][1]) /\ SassEq(a.v[i][2], b.v[j][2])
    [] OTHER -> FALSE

----------------------------------------------------------------------------
(* text *)

RECURSIVE NatText(_)
NatText(n) == IF n < 10 THEN SubSeq("0123456789", n + 1, n + 1)
              ELSE NatText(n \div 10) \o SubSeq("0123456789", (n % 10) + 1, (n % 10) + 1)
IntText(n) == IF n < 0 THEN "-" \o NatText(-n) ELSE NatText(n)

RECURSIVE JoinT(_, _, _)
JoinT(s, sep, i) == IF i > Len(s) THEN "" ELSE
                    IF i = Len(s) THEN s[i] ELSE s[i] \o sep \o JoinT(s, sep, i + 1)

\* inspect(): the text @debug shows.  Lists of scalars only need no parentheses;
\* nested lists are parenthesised when the inner separator binds looser or equal.
RECURSIVE Inspect(_)
RECURSIVE InspectElem(_, _)
Inspect(v) ==
  CASE v.t = "int"  -> IntText(v.v)
    [] v.t = "str"  -> v.v
    [] v.t = "qstr" -> "\"" \o v.v \o "\""
    [] v.t = "bool" -> IF v.v THEN "true" ELSE "false"
    [] v.t = "null" -> "null"
    [] v.t = "list" ->
         IF Len(v.v) = 0 THEN "()"
         ELSE IF Len(v.v) = 1 /\ v.sep = "comma" THEN "(" \o InspectElem(v.v[1], v.sep) \o ",)"
         ELSE JoinT([i \in 1..Len(v.v) |-> InspectElem(v.v[i], v.sep)],
                    IF v.sep = "comma" THEN ", " ELSE " ", 1)
    [] v.t = "map" ->
         "(" \o JoinT([i \in 1..Len(v.v) |-> Inspect(v.v[i][1]) \o ": " \o Inspect(v.v[i][2])], ", ", 1) \o ")"
    [] OTHER -> "?"
InspectElem(e, sep) ==
  IF e.t = "list" /\ Len(e.v) > 1 /\ (e.sep = "comma" \/ sep = "space")
  THEN "(" \o Inspect(e) \o ")" ELSE Inspect(e)

\* the text of a value in a CSS declaration; NoCss when it cannot be emitted
NoCss == "<no-css>"
RECURSIVE CssText(_)
CssText(v) ==
  CASE v.t = "int"  -> IntText(v.v)
    [] v.t = "str"  -> v.v
    [] v.t = "qstr" -> "\"" \o v.v \o "\""
    [] v.t = "bool" -> IF v.v THEN "true" ELSE "false"
    [] v.t = "null" -> ""
    [] v.t = "list" ->
         LET vis == SelectSeq(v.v, LAMBDA e : ~(e.t = "null" \/ (e.t = "list" /\ Len(e.v) = 0)))
         IN IF Len(v.v) = 0 THEN NoCss
            ELSE JoinT([i \in 1..Len(vis) |-> IF vis[i].t = "list" THEN InspectElem(vis[i], v.sep) ELSE CssText(vis[i])],
                       IF v.sep = "comma" THEN ", " ELSE " ", 1)
    [] OTHER -> NoCss

\* a declaration whose value is null (or a list with nothing visible) is omitted
Invisible(v) == v.t = "null" \/ (v.t = "list" /\ Len(v.v) > 0 /\ \A i \in 1..Len(v.v) : v.v[i].t = "null")

\* text used when a value is spliced into a string (concatenation)
Splice(v) == CASE v.t = "qstr" -> v.v [] v.t = "null" -> "" [] OTHER -> CssText(v)

----------------------------------------------------------------------------
(* operators *)

Big(v) == v.t = "int" /\ (v.v > 30000 \/ v.v < -30000)      \* keep clear of TLC's 32-bit integers
BinOp(op, a, b) ==
  IF Big(a) \/ Big(b) THEN UnkV ELSE
  CASE op = "==" -> VBool(SassEq(a, b))
    [] op = "!=" -> VBool(~SassEq(a, b))
    [] op \in {"<", ">", "<=", ">="} ->
         IF a.t = "int" /\ b.t = "int"
         THEN VBool(CASE op = "<" -> a.v < b.v [] op = ">" -> a.v > b.v
                     [] op = "<=" -> a.v <= b.v [] op = ">=" -> a.v >= b.v)
         ELSE ErrV
    [] op = "+" ->
         IF a.t = "int" /\ b.t = "int" THEN VInt(a.v + b.v)
         ELSE IF a.t = "qstr" /\ b.t \in {"int", "str", "qstr", "bool"} THEN VQStr(a.v \o Splice(b))
         ELSE IF a.t = "str" /\ b.t \in {"int", "str", "qstr", "bool"} THEN VStr(a.v \o Splice(b))
         ELSE IF a.t \in {"int", "bool"} /\ b.t = "qstr" THEN VQStr(CssText(a) \o b.v)
         ELSE IF a.t \in {"int", "bool"} /\ b.t = "str" THEN VStr(CssText(a) \o b.v)
         ELSE UnkV
    [] op = "-" ->
         IF a.t = "int" /\ b.t = "int" THEN VInt(a.v - b.v) ELSE UnkV
    [] op = "*" ->
         IF a.t = "int" /\ b.t = "int" THEN VInt(a.v * b.v) ELSE IF a.t = "int" \/ b.t = "int" THEN ErrV ELSE ErrV
    [] op = "%" ->
         IF a.t = "int" /\ b.t = "int" /\ b.v # 0
         THEN VInt(IF b.v > 0 THEN a.v % b.v ELSE -((-a.v) % (-b.v)))       \* sign of the divisor
         ELSE UnkV
    [] OTHER -> UnkV

\* a value iterated by @each: a list yields its elements, a map its pairs, a scalar itself
AsList(v) == CASE v.t = "list" -> v.v
               [] v.t = "map" -> [i \in 1..Len(v.v) |-> VList(<<v.v[i][1], v.v[i][2]>>, "space")]
               [] OTHER -> <<v>>
=============================================================================
