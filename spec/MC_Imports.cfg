SPECIFICATION Spec
CONSTANTS
  MaxFiles = 2
  Urls = {"foo", "d/foo", "foo.bar", "foo.scss", "foo.css"}
  Kinds = {"import", "use"}
  Importers = {"root", "sub"}
  LoadPathLists = {0, 1}
INVARIANTS ResolveSound DecoysInert EmitCase
CHECK_DEADLOCK FALSE
