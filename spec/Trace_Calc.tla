------------------------------- MODULE Trace_Calc -------------------------------
(* One event per compiled calculation (C16): the source AST (from MC_Calc),    *)
(* its class, and what grass printed - a plain number, a calculation (parsed    *)
(* by the checker into the same AST shape) or an error.                         *)
EXTENDS Calc, TLC, Json, IOUtils

VARIABLES l
Rec == ndJsonDeserialize(IOEnv.TRACE)

\* no environment gives the expression a value CSS can hold (incompatible addition, or a compound unit)
NoValue(e) == \A env \in Envs : LET v == EvalCalc(e, env) IN IsBad(v) \/ ~Simple(v.dim)

Allowed(r) ==
  CASE r.class = "open" -> TRUE
    [] r.class = "reject" -> r.outcome = "error"                                   \* provably incompatible units
    [] r.class = "fold" -> /\ r.outcome = "value" /\ r.out.t = "num"               \* all operands known: ordinary arithmetic
                           /\ Equivalent(r.ast, r.out)
    [] OTHER -> \/ (r.outcome = "value" /\ Equivalent(r.ast, r.out))               \* same quantity under every environment
                \/ (r.outcome = "error" /\ (NoValue(r.ast) \/ MayBeCompound(r.ast)))    \* no value CSS can hold: may be rejected
                \/ (r.outcome = "special" /\ NoValue(r.ast))                      \* Infinity / NaN only where nothing has a value

Init == l = 1
Observe == l <= Len(Rec) /\ (Allowed(Rec[l]) = TRUE) /\ l' = l + 1
Reject  == /\ l <= Len(Rec) /\ (Allowed(Rec[l]) = FALSE)
           /\ PrintT(<<"REJECT", ToJson([id |-> Rec[l].id])>>) /\ l' = l + 1
Next == Observe \/ Reject
Spec == Init /\ [][Next]_l
Consumed == (TLCGet("stats").diameter - 1 = Len(Rec)) \/ Print(<<"NOTE", "trace not consumed">>, FALSE)
=============================================================================
