------------------------------- MODULE MC_Input -------------------------------
(* The input space as the parsers see it (C01): sequences of lexical atoms    *)
(* built one Append per action, and mutation descriptors over seed inputs.    *)
(* Alphabet atoms are numbered; the checker holds the table number -> text    *)
(* for each context (top-level soup, value, selector, at-rule, comment soup).  *)
EXTENDS Naturals, Sequences, TLC, Json

CONSTANTS NAtoms, MaxLen, Mode, MaxPos       \* Mode in {"soup", "mutations"}

VARIABLES seq, done, mut
vars == <<seq, done, mut>>

Init == seq = <<>> /\ done = FALSE /\ mut = <<>>

AppendAtom(a) == Mode = "soup" /\ ~done /\ Len(seq) < MaxLen /\ seq' = Append(seq, a) /\ UNCHANGED <<done, mut>>
Stop == Mode = "soup" /\ ~done /\ Len(seq) > 0 /\ done' = TRUE /\ UNCHANGED <<seq, mut>>

\* near-miss mutations of a well-formed seed: op at position i (with atom a where one is inserted)
Ops == {"delete", "duplicate", "truncate", "insert", "replace", "swap"}
Mutate(op, i, a) == /\ Mode = "mutations" /\ ~done
                    /\ (op \in {"delete", "duplicate", "truncate", "swap"} => a = 1)
                    /\ mut' = <<op, i, a>> /\ done' = TRUE /\ UNCHANGED seq

Next == \/ \E a \in 1..NAtoms : AppendAtom(a)
        \/ Stop
        \/ \E op \in Ops, i \in 1..MaxPos, a \in 1..NAtoms : Mutate(op, i, a)
Spec == Init /\ [][Next]_vars

Emit == done => PrintT(<<"CASE", IF Mode = "soup" THEN ToJson(seq) ELSE ToJson(mut)>>)
=============================================================================
