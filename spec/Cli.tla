--------------------------------- MODULE Cli ---------------------------------
(* The command-line tool as a small machine (C20).  A run is                 *)
(*   Start -> OpenOutput -> ReadInput -> Compile -> WriteOut -> Exit(0)      *)
(*                                               \-> PrintErr -> Exit(1)     *)
(* Flags: style, nocharset, quiet, nounicode, lps (0, 1, 2 load paths; 3 = the *)
(* two load paths in the opposite order),                                   *)
(* stdin (input from --stdin), tofile (an output file is named).             *)
(* Input classes: what the library does with the input under those options.  *)
EXTENDS Naturals, Sequences, FiniteSets

Classes == {"valid", "warn", "nonascii", "needslp", "parseerr", "evalerr", "missing", "badout"}

\* what the library returns for this class under these flags
LibOk(class, flags) ==
  CASE class \in {"valid", "warn", "nonascii"} -> TRUE
    [] class = "needslp" -> flags.lps >= 1            \* the imported file lives in the first load path
    [] class = "badout" -> TRUE
    [] OTHER -> FALSE

VARIABLES phase, stdout, stderr, outfile, exit
vars == <<phase, stdout, stderr, outfile, exit>>

\* The output file may exist before the run with older, longer content ("stale"); opening it truncates it.
\* stdout/outfile: "none" (nothing written / file absent), "empty" (file created, nothing in it), "css"
\* stderr: set of chunks among {"warning", "error", "ioerror"}
Init == phase = "start" /\ stdout = "none" /\ stderr = {} /\ outfile = "none" /\ exit = 9

OpenOutput(class, flags) ==
  /\ phase = "start"
  /\ IF flags.tofile /\ class = "badout"
     THEN phase' = "exit" /\ exit' = 1 /\ stderr' = {"ioerror"} /\ UNCHANGED <<stdout, outfile>>     \* cannot create the file
     ELSE /\ phase' = "opened" /\ outfile' = (IF flags.tofile THEN "empty" ELSE "none")
          /\ UNCHANGED <<stdout, stderr, exit>>

ReadInput(class, flags) ==
  /\ phase = "opened"
  /\ IF class = "missing" /\ ~flags.stdin
     THEN phase' = "exit" /\ exit' = 1 /\ stderr' = {"error"} /\ UNCHANGED <<stdout, outfile>>
     ELSE phase' = "read" /\ UNCHANGED <<stdout, stderr, outfile, exit>>

Compile(class, flags) ==
  /\ phase = "read"
  /\ stderr' = (IF class = "warn" /\ ~flags.quiet THEN {"warning"} ELSE {})     \* warnings go to stderr only
  /\ phase' = (IF LibOk(class, flags) THEN "compiled" ELSE "failed")
  /\ UNCHANGED <<stdout, outfile, exit>>

WriteOut(flags) ==
  /\ phase = "compiled"
  /\ IF flags.tofile THEN outfile' = "css" /\ UNCHANGED stdout ELSE stdout' = "css" /\ UNCHANGED outfile
  /\ phase' = "exit" /\ exit' = 0 /\ UNCHANGED stderr

PrintErr ==
  /\ phase = "failed"
  /\ stderr' = stderr \cup {"error"} /\ phase' = "exit" /\ exit' = 1 /\ UNCHANGED <<stdout, outfile>>

Next(class, flags) == OpenOutput(class, flags) \/ ReadInput(class, flags) \/ Compile(class, flags)
                      \/ WriteOut(flags) \/ PrintErr

\* safety of the machine itself: CSS never coexists with a failure, warnings never enter the CSS channel
NoCssOnFailure == exit = 1 => (stdout # "css" /\ outfile # "css")
CssOnSuccess == exit = 0 => ((stdout = "css") # (outfile = "css"))
=============================================================================
