SPECIFICATION Spec
CONSTANTS LpCounts = {0, 1, 2, 3}
INVARIANTS NoCssOnFailure CssOnSuccess Emit
CHECK_DEADLOCK FALSE
