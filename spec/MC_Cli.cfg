SPECIFICATION Spec
CONSTANTS LpCounts = {0, 1, 2}
INVARIANTS NoCssOnFailure CssOnSuccess Emit
CHECK_DEADLOCK FALSE
