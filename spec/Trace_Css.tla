------------------------------- MODULE Trace_Css -------------------------------
(* One event per successful compilation under one configuration (C05): the    *)
(* token stream of the output, the declaration values (for admission), the     *)
(* charset facts, and what compiling that output again as CSS and as SCSS gave. *)
EXTENDS CssTokens, TLC, Json, IOUtils

VARIABLES l
Rec == ndJsonDeserialize(IOEnv.TRACE)

Admitted(r) == r.selectorsok /\ \A i \in 1..Len(r.values) : RepresentableValue(r.values[i])

Stable(r, again) == again.ok /\ again.flat = r.flat        \* same rules, declarations and values, blank lines aside

\* valid UTF-8 always; everything else is promised for sheets made of CSS-representable values
Allowed(r) ==
  /\ r.utf8
  /\ CharsetOk(r)
  /\ (Admitted(r) => WellFormed(r.toks) /\ SassFree(r.toks) /\ Stable(r, r.ascss) /\ Stable(r, r.asscss))

Init == l = 1
Observe == l <= Len(Rec) /\ (Allowed(Rec[l]) = TRUE) /\ l' = l + 1
Reject  == /\ l <= Len(Rec) /\ (Allowed(Rec[l]) = FALSE)
           /\ PrintT(<<"REJECT", ToJson([id |-> Rec[l].id, utf8 |-> Rec[l].utf8, wellformed |-> WellFormed(Rec[l].toks),
                                          sassfree |-> SassFree(Rec[l].toks), charset |-> CharsetOk(Rec[l]),
                                          admitted |-> Admitted(Rec[l]),
                                          ascss |-> Stable(Rec[l], Rec[l].ascss), asscss |-> Stable(Rec[l], Rec[l].asscss)])>>)
           /\ l' = l + 1
Next == Observe \/ Reject
Spec == Init /\ [][Next]_l
Consumed == (TLCGet("stats").diameter - 1 = Len(Rec)) \/ Print(<<"NOTE", "trace not consumed">>, FALSE)
=============================================================================
