----------------------------- MODULE MC_Nesting -----------------------------
(* Generator for C04: rule trees built one instruction per action; the       *)
(* expectation is Flatten.Flat; rendering is SCSS on one line per instruction.*)
EXTENDS Flatten, TLC, Json

CONSTANTS MaxLen, MaxDepth, Menu,
          Spine     \* TRUE: one chain of nested blocks with a declaration at the bottom, then at most one more rule

VARIABLES prog, open, done
vars == <<prog, open, done>>

R(sel) == [op |-> "rule", sel |-> sel]
D(p, v) == [op |-> "decl", p |-> p, v |-> v]
Blocks ==
  CASE Menu = "core" ->
    {R(<< <<"a">> >>), R(<< <<".b">>, <<"c">> >>), R(<< <<"&", "-s">> >>), R(<< <<"&">>, <<"&", ".k">> >>), R(<< <<"> d">> >>),
     [op |-> "media", q |-> "screen"], [op |-> "supports", c |-> "(x: y)"], [op |-> "atroot", q |-> ""],
     [op |-> "nprop", name |-> "font"]}
  [] Menu = "amp" ->
    {R(<< <<"a">>, <<"b">> >>), R(<< <<"&", " ", "&">> >>), R(<< <<".x ", "&">>, <<"e">> >>), R(<< <<"&", "-s">>, <<"&", " ", "&">> >>),
     R(<< <<"&", ":hover">> >>), R(<< <<"f ", "&", ".g">> >>), R(<< <<"+ h">>, <<"~ i">> >>)}
  [] Menu = "atrules" ->
    {R(<< <<"a">> >>), R(<< <<"b">> >>), [op |-> "media", q |-> "screen"], [op |-> "media", q |-> "(a)"], [op |-> "supports", c |-> "(x: y)"],
     [op |-> "atrule", name |-> "layer", params |-> "base"], [op |-> "atrule", name |-> "layer", params |-> "other"],
     [op |-> "atrule", name |-> "foo", params |-> "bar"],
     [op |-> "atroot", q |-> ""], [op |-> "atroot", q |-> "without: media"], [op |-> "atroot", q |-> "without: all"],
     [op |-> "atroot", q |-> "with: media"], [op |-> "atroot", q |-> "with: rule"], [op |-> "atroot", q |-> "without: supports"],
     [op |-> "atroot", q |-> "without: layer"]}
  [] Menu = "spine-media" ->
    {R(<< <<"a">> >>), [op |-> "media", q |-> "screen"], [op |-> "media", q |-> "(a)"], [op |-> "supports", c |-> "(x: y)"],
     [op |-> "atroot", q |-> "without: all"], [op |-> "atroot", q |-> "without: media"]}
  [] Menu = "spine-layer" ->
    {R(<< <<"a">> >>), [op |-> "atrule", name |-> "layer", params |-> "base"], [op |-> "atrule", name |-> "layer", params |-> "other"],
     [op |-> "atroot", q |-> "without: layer"], [op |-> "atroot", q |-> "without: all"], [op |-> "atroot", q |-> ""]}
  [] Menu = "nprops" ->       \* nested properties inside nested properties, declarations before and after an inner block
    {R(<< <<"a">> >>), [op |-> "nprop", name |-> "font"], [op |-> "nprop", name |-> "b"]}
  [] OTHER -> {}
Simples == {D("x", "1"), D("y", "2")}

Range(s) == {s[i] : i \in 1..Len(s)}
InRule == "rule" \in Range(open)
\* where a rule context exists dynamically (so declarations are legal): inside a rule not cut off by an at-root that drops it
LastRuleOrRoot == LET S == {i \in 1..Len(open) : open[i] \in {"rule", "atroot-drop"}} IN
                  IF S = {} THEN "" ELSE open[CHOOSE i \in S : \A j \in S : j <= i]
DeclOk == LastRuleOrRoot = "rule"
Kind(ins) == IF ins.op = "atroot" /\ ~AtRootKeepsRule(ins.q) THEN "atroot-drop" ELSE ins.op

NEnds == Cardinality({i \in 1..Len(prog) : prog[i].op = "end"})
NDecls == Cardinality({i \in 1..Len(prog) : prog[i].op = "decl"})
SpineOkDecl == ~Spine \/ (NDecls = 0 /\ NEnds = 0) \/ (NDecls = 1 /\ NEnds > 0 /\ prog[Len(prog)].op = "rule")
SpineOkOpen(ins) == ~Spine \/ (NEnds = 0 /\ NDecls = 0) \/ (NEnds > 0 /\ NDecls = 1 /\ prog[Len(prog)].op = "end" /\ ins = R(<< <<"c">> >>))
SpineOkClose == ~Spine \/ NDecls > 0

AllowedB(ins) ==
  /\ (ins.op = "nprop" => DeclOk /\ (open # <<>> => (open[Len(open)] # "nprop" \/ Menu = "nprops")))
  /\ (open # <<>> /\ open[Len(open)] = "nprop" => (Menu = "nprops" /\ ins.op = "nprop"))   \* only declarations (and, in the nprops menu,
                                                                                         \* further nested properties) inside a nested property
  /\ (ins.op = "atroot" => InRule)                                               \* @at-root is interesting inside a rule
  /\ (ins.op = "media" /\ ins.q = "(a)" => "media" \in Range(open))              \* feature-only query only after a type query
  /\ (ins.op = "media" /\ ins.q = "screen" => "media" \notin Range(open))
  /\ (ins.op = "rule" /\ ~InRule => \A k \in 1..Len(ins.sel) : ~HasParentRef(ins.sel[k]) /\ SubSeq(ins.sel[k][1], 1, 1) \notin {">", "+", "~"})

Init == prog = <<>> /\ open = <<>> /\ done = FALSE
AddDecl(d) == /\ ~done /\ Len(prog) < MaxLen /\ DeclOk /\ SpineOkDecl /\ (Spine => d.p = (IF NDecls = 0 THEN "x" ELSE "y"))
              /\ prog' = Append(prog, d) /\ UNCHANGED <<open, done>>
OpenB(ins) == /\ ~done /\ Len(prog) + 2 <= MaxLen /\ Len(open) < MaxDepth /\ SpineOkOpen(ins)
              /\ (IF Spine /\ NEnds > 0 THEN TRUE ELSE AllowedB(ins))
              /\ prog' = Append(prog, ins) /\ open' = Append(open, Kind(ins)) /\ UNCHANGED done
CloseB == /\ ~done /\ open # <<>> /\ SpineOkClose
          /\ prog' = Append(prog, [op |-> "end"]) /\ open' = SubSeq(open, 1, Len(open) - 1) /\ UNCHANGED done
Finish == ~done /\ open = <<>> /\ Len(prog) > 0 /\ done' = TRUE /\ UNCHANGED <<prog, open>>
Next == (\E d \in Simples : AddDecl(d)) \/ (\E b \in Blocks \cup (IF Spine THEN {R(<< <<"c">> >>)} ELSE {}) : OpenB(b)) \/ CloseB \/ Finish
Spec == Init /\ [][Next]_vars
Closable == Len(prog) + Len(open) <= MaxLen

----------------------------------------------------------------------------
SelText(sel) == JoinS([k \in 1..Len(sel) |-> JoinS(sel[k], "", 1)], ", ", 1)
Line(ins) ==
  CASE ins.op = "rule" -> SelText(ins.sel) \o " {"
    [] ins.op = "media" -> "@media " \o ins.q \o " {"
    [] ins.op = "supports" -> "@supports " \o ins.c \o " {"
    [] ins.op = "atrule" -> "@" \o ins.name \o " " \o ins.params \o " {"
    [] ins.op = "atroot" -> "@at-root " \o (IF ins.q = "" THEN "" ELSE "(" \o ins.q \o ") ") \o "{"
    [] ins.op = "nprop" -> ins.name \o ": {"
    [] ins.op = "decl" -> ins.p \o ": " \o ins.v \o ";"
    [] ins.op = "end" -> "}"

\* design-level property of the reference flattening: every declaration of the source appears exactly once
DeclCount(p) == Cardinality({i \in 1..Len(p) : p[i].op = "decl"})
FlatKeepsAll == done => Len(Flat(prog)) = DeclCount(prog)

Emit == done => PrintT(<<"CASE", ToJson([scss |-> [i \in 1..Len(prog) |-> Line(prog[i])], flat |-> Flat(prog)])>>)
=============================================================================
