SPECIFICATION Spec
CONSTANTS
  MaxOuter = 1
  MaxInner = 1
  MaxMid = 0
  Spellings = {"lower", "upper"}
  Shapes = {0, 1, 2, 3}
  WithOr = TRUE
  Small = FALSE
INVARIANTS PairSound ListSound EmptyIsRecognised Emit
CHECK_DEADLOCK FALSE
