----------------------------- MODULE Trace_Diag -----------------------------
(* Judges one event per compilation: the error record (if any), the logger   *)
(* deliveries, and the bytes that reached fd 1/2 while a custom Logger was   *)
(* installed.  Events come from generated programs (with expectations from   *)
(* Eval) and from arbitrary failing inputs (location and rendering only).    *)
EXTENDS Diag, TLC, Json, IOUtils

VARIABLES l
Rec == ndJsonDeserialize(IOEnv.TRACE)

ToSet(s) == {s[i] : i \in 1..Len(s)}

ErrOk(r) ==
  r.outcome = "error" =>
    /\ r.rendered_ok                                      \* rendering did not fail
    /\ (r.ekind = "parse" =>
          /\ WellLocated(r.err, ToSet(r.files))
          /\ RenderedOk(r.rendered, r.err.message))
    /\ (r.ekind # "parse" => Prefix(r.rendered, "Error: "))
    /\ (Len(r.einfo) > 0 =>                               \* an @error directive: inspected value, its file and line
          /\ r.ekind = "parse"
          /\ r.err.message = r.einfo[1] /\ r.err.bline = r.einfo[2] /\ r.err.file = r.einfo[3])

OutcomeOk(r) == CASE r.expect = "ok" -> r.outcome = "css"
                  [] r.expect = "error" -> r.outcome = "error"
                  [] OTHER -> r.outcome \in {"css", "error"}

Allowed(r) ==
  /\ OutcomeOk(r)
  /\ ErrOk(r)
  /\ (r.haslog => LogOk(r.explog, r.log, r.quiet))
  /\ (r.quiet => r.log = <<>>)
  /\ r.stdio = 0                                          \* nothing on stdout/stderr with a custom Logger

Init == l = 1
Observe == l <= Len(Rec) /\ (Allowed(Rec[l]) = TRUE) /\ l' = l + 1
Reject  == /\ l <= Len(Rec) /\ (Allowed(Rec[l]) = FALSE)
           /\ PrintT(<<"REJECT", ToJson([id |-> Rec[l].id, outcome |-> OutcomeOk(Rec[l]), err |-> ErrOk(Rec[l]),
                                          log |-> (Rec[l].haslog => LogOk(Rec[l].explog, Rec[l].log, Rec[l].quiet)),
                                          quiet |-> (Rec[l].quiet => Rec[l].log = <<>>), stdio |-> Rec[l].stdio = 0])>>)
           /\ l' = l + 1
Next == Observe \/ Reject
Spec == Init /\ [][Next]_l
Consumed == (TLCGet("stats").diameter - 1 = Len(Rec)) \/ Print(<<"NOTE", "trace not consumed">>, FALSE)
=============================================================================
