------------------------------- MODULE Media -------------------------------
(* Media queries as grass/dart-sass see them, their meaning under a media     *)
(* environment, and the reference merge algorithm for nested @media rules.    *)
(* Pure definitions; used by MC_Media (generator + design-level soundness)    *)
(* and Trace_Media (judging what the implementation emitted).                 *)
EXTENDS Naturals, Sequences, FiniteSets

Types == {"screen", "print", "tv"}          \* media types an environment can have
Feats == {"(a)", "(b)", "(c)"}              \* opaque feature conditions

\* an environment fixes the device's media type and which features hold
Env == [type : Types, feat : SUBSET Feats]

\* query record: mod in {"", "not", "only"}, type in {"", "all", "screen", ...} (any case),
\* conds a sequence of features, conj TRUE for `and`-joined, FALSE for `or`-joined
Lower(s) == CASE s = "SCREEN" -> "screen" [] s = "PRINT" -> "print" [] s = "ALL" -> "all"
              [] s = "NOT" -> "not" [] s = "ONLY" -> "only" [] s = "Screen" -> "screen"
              [] OTHER -> s

Range(s) == {s[i] : i \in 1..Len(s)}

MatchesAllTypes(q) == Lower(q.type) \in {"", "all"}

SatPos(q, e) ==
  /\ MatchesAllTypes(q) \/ Lower(q.type) = e.type
  /\ IF q.conj THEN \A c \in Range(q.conds) : c \in e.feat
               ELSE \E c \in Range(q.conds) : c \in e.feat

Sat(q, e) == IF Lower(q.mod) = "not" THEN ~SatPos(q, e) ELSE SatPos(q, e)

SatList(l, e) == \E i \in 1..Len(l) : Sat(l[i], e)

\* a chain of nested @media rules applies when every level does
SatChain(ch, e) == \A i \in 1..Len(ch) : SatList(ch[i], e)

----------------------------------------------------------------------------
(* The reference merge (Sass: MediaQuery.merge).  One disjunct per arm of    *)
(* the implementation's case split, in the same order.                       *)

Ok(m, t, c) == [k |-> "ok", q |-> [mod |-> m, type |-> t, conds |-> c, conj |-> TRUE]]
Empty == [k |-> "empty"]
Unrep == [k |-> "unrep"]

Subset(s, t) == Range(s) \subseteq Range(t)

Merge(a, b) ==
  LET am == Lower(a.mod)  at == Lower(a.type)
      bm == Lower(b.mod)  bt == Lower(b.type)
  IN
  IF ~a.conj \/ ~b.conj THEN Unrep
  ELSE IF at = "" /\ bt = "" THEN Ok("", "", a.conds \o b.conds)
  ELSE IF (am = "not") # (bm = "not") THEN
         IF at = bt THEN
            LET neg == IF am = "not" THEN a.conds ELSE b.conds
                pos == IF am = "not" THEN b.conds ELSE a.conds
            IN IF Subset(neg, pos) THEN Empty ELSE Unrep
         ELSE IF MatchesAllTypes(a) \/ MatchesAllTypes(b) THEN Unrep
         ELSE IF am = "not" THEN Ok(b.mod, b.type, b.conds)
         ELSE Ok(a.mod, a.type, a.conds)
  ELSE IF am = "not" THEN
         IF at # bt THEN Unrep
         ELSE LET more  == IF Len(a.conds) > Len(b.conds) THEN a.conds ELSE b.conds
                  fewer == IF Len(a.conds) > Len(b.conds) THEN b.conds ELSE a.conds
              IN IF Subset(fewer, more) THEN Ok(a.mod, a.type, more) ELSE Unrep
  ELSE IF MatchesAllTypes(a) THEN
         Ok(b.mod, IF MatchesAllTypes(b) /\ at = "" THEN "" ELSE b.type, a.conds \o b.conds)
  ELSE IF MatchesAllTypes(b) THEN Ok(a.mod, a.type, a.conds \o b.conds)
  ELSE IF at # bt THEN Empty
  ELSE Ok(IF a.mod # "" THEN a.mod ELSE b.mod, a.type, a.conds \o b.conds)

\* cartesian merge of two query lists: "unrep" as soon as one pair is, else the
\* successful pairs in (outer-major) order; an empty result means "drop the rule"
RECURSIVE MergeRow(_, _, _)
MergeRow(a, l2, j) ==
  IF j > Len(l2) THEN [k |-> "ok", qs |-> <<>>]
  ELSE LET r == Merge(a, l2[j])  rest == MergeRow(a, l2, j + 1)
       IN IF r.k = "unrep" \/ rest.k = "unrep" THEN [k |-> "unrep", qs |-> <<>>]
          ELSE IF r.k = "empty" THEN rest
          ELSE [k |-> "ok", qs |-> <<r.q>> \o rest.qs]

RECURSIVE MergeLists(_, _, _)
MergeLists(l1, l2, i) ==
  IF i > Len(l1) THEN [k |-> "ok", qs |-> <<>>]
  ELSE LET r == MergeRow(l1[i], l2, 1)  rest == MergeLists(l1, l2, i + 1)
       IN IF r.k = "unrep" \/ rest.k = "unrep" THEN [k |-> "unrep", qs |-> <<>>]
          ELSE [k |-> "ok", qs |-> r.qs \o rest.qs]

MergeQ(l1, l2) == MergeLists(l1, l2, 1)

----------------------------------------------------------------------------
(* The exclusions the property makes: modifiers on `all`, two negated        *)
(* queries of one media type.                                                *)
ModifierOnAll(q) == q.mod # "" /\ Lower(q.type) \in {"all", ""}
BothNotSameType(a, b) == Lower(a.mod) = "not" /\ Lower(b.mod) = "not" /\ Lower(a.type) = Lower(b.type)
InScope(a, b) == ~ModifierOnAll(a) /\ ~ModifierOnAll(b) /\ ~BothNotSameType(a, b)

\* soundness of one pairwise merge
Sound(a, b) ==
  LET r == Merge(a, b) IN
  CASE r.k = "ok"    -> \A e \in Env : Sat(r.q, e) <=> (Sat(a, e) /\ Sat(b, e))
    [] r.k = "empty" -> \A e \in Env : ~(Sat(a, e) /\ Sat(b, e))
    [] r.k = "unrep" -> TRUE

----------------------------------------------------------------------------
(* Text *)
RECURSIVE JoinFrom(_, _, _)
JoinFrom(s, sep, i) == IF i > Len(s) THEN "" ELSE
                       IF i = Len(s) THEN s[i] ELSE s[i] \o sep \o JoinFrom(s, sep, i + 1)
Join(s, sep) == JoinFrom(s, sep, 1)

QText(q) ==
  LET head == (IF q.mod # "" THEN q.mod \o " " ELSE "") \o q.type
      cs   == Join(q.conds, IF q.conj THEN " and " ELSE " or ")
  IN IF q.type = "" THEN cs
     ELSE IF Len(q.conds) = 0 THEN head ELSE head \o " and " \o cs

ListText(l) == Join([i \in 1..Len(l) |-> QText(l[i])], ", ")
=============================================================================
