-------------------------------- MODULE MC_Maps --------------------------------
(* C09, map part: sequences of map operations, one per action; the machine's   *)
(* state is the association sequence; every reachable state is checked for     *)
(* duplicate-free keys and for order preservation across each step.            *)
EXTENDS MapMachine, TLC, Json

CONSTANTS MaxOps

VARIABLES m, ops, prev, done
vars == <<m, ops, prev, done>>

K == << <<"a", "sa">>, <<"\"a\"", "sa">>, <<"1in", "len96">>, <<"96px", "len96">>, <<"b", "sb">>, <<"red", "cred">>, <<"#f00", "cred">> >>
V == <<"x", "y">>
L(k) == Entry(K[k][1], K[k][2], Scalar("q"))
Lits == << <<Entry("a", "sa", Scalar("m1")), Entry("b", "sb", Scalar("m2"))>>,
           <<Entry("\"a\"", "sa", Scalar("q")), Entry("96px", "len96", Scalar("r"))>> >>
DLits == << <<Entry("a", "sa", MapV(<<Entry("p", "sp", Scalar("1"))>>))>>,
            <<Entry("b", "sb", MapV(<<Entry("n", "sn", Scalar("2")), Entry("p", "sp", Scalar("3"))>>)),
              Entry("1in", "len96", MapV(<<Entry("n", "sn", Scalar("4"))>>))>>,
            <<Entry("\"a\"", "sa", MapV(<<Entry("n", "sn", Scalar("9"))>>)), Entry("c", "sc", Scalar("5"))>> >>

Op == [k : {"S"}, key : 1..Len(K), val : 1..Len(V)] \cup [k : {"R"}, key : 1..Len(K)] \cup [k : {"M"}, lit : 1..Len(Lits)]
      \cup [k : {"N"}, key : {1, 3, 5}, val : 1..Len(V)] \cup [k : {"DM"}, lit : 1..Len(DLits)]

Apply(mm, o) ==
  CASE o.k = "S" -> Set(mm, K[o.key][1], K[o.key][2], Scalar(V[o.val]))
    [] o.k = "R" -> Remove(mm, K[o.key][2])
    [] o.k = "M" -> Merge(mm, Lits[o.lit], 1)
    [] o.k = "N" -> Set(mm, K[o.key][1], K[o.key][2], MapV(<<Entry("n", "sn", Scalar(V[o.val]))>>))
    [] o.k = "DM" -> DeepMerge(mm, DLits[o.lit], 1)

Init == m = <<>> /\ ops = <<>> /\ prev = <<>> /\ done = FALSE
Do(o) == ~done /\ Len(ops) < MaxOps /\ m' = Apply(m, o) /\ ops' = Append(ops, o) /\ prev' = m /\ UNCHANGED done
Finish == ~done /\ Len(ops) > 0 /\ done' = TRUE /\ UNCHANGED <<m, ops, prev>>
Next == (\E o \in Op : Do(o)) \/ Finish
Spec == Init /\ [][Next]_vars

KeysUnique == WellFormedMap(m)
OrderKept == IsSubseqOrder(Order(prev), Order(m))        \* no step permutes the surviving keys

----------------------------------------------------------------------------
LitText(l) == InspectMap(l)
OpLine(o, n) ==
  CASE o.k = "S" -> IF n % 2 = 0 THEN "$m: map-merge($m, (" \o K[o.key][1] \o ": " \o V[o.val] \o "));"
                    ELSE "$m: map.set($m, " \o K[o.key][1] \o ", " \o V[o.val] \o ");"
    [] o.k = "R" -> IF n % 2 = 0 THEN "$m: map-remove($m, " \o K[o.key][1] \o ");" ELSE "$m: map.remove($m, " \o K[o.key][1] \o ");"
    [] o.k = "M" -> "$m: map-merge($m, " \o LitText(Lits[o.lit]) \o ");"
    [] o.k = "N" -> "$m: map.set($m, " \o K[o.key][1] \o ", (n: " \o V[o.val] \o "));"
    [] o.k = "DM" -> "$m: map.deep-merge($m, " \o LitText(DLits[o.lit]) \o ");"

ListText(xs) == IF Len(xs) = 0 THEN "()" ELSE IF Len(xs) = 1 THEN "(" \o xs[1] \o ",)" ELSE JoinM(xs, ", ", 1)
Emit == done => PrintT(<<"CASE", ToJson([lines |-> [n \in 1..Len(ops) |-> OpLine(ops[n], n)],
                                         inspect |-> InspectMap(m),
                                         keys |-> ListText([n \in 1..Len(m) |-> m[n].key]),
                                         values |-> ListText([n \in 1..Len(m) |-> InspectVal(m[n].val)]),
                                         each |-> [n \in 1..Len(m) |-> m[n].key]])>>)
=============================================================================
