------------------------------- MODULE Trace_Cli -------------------------------
(* One event per real process run: exit status, whether stdout / the output   *)
(* file hold exactly the library's CSS for the same options, what is on       *)
(* stderr.  Explained only by the terminal state of the Cli machine.          *)
EXTENDS Naturals, Sequences, FiniteSets, TLC, Json, IOUtils

VARIABLES l
Rec == ndJsonDeserialize(IOEnv.TRACE)
ToSet(s) == {s[i] : i \in 1..Len(s)}

Allowed(r) ==
  LET e == r.expect IN
  /\ (e.exit = 0) = (r.exit = 0)                                  \* success exactly when the library succeeds
  /\ r.stdout = e.stdout                                          \* "css" = byte-identical to the library's CSS, else "none"
  /\ (e.outfile = "css" => r.outfile = "css")
  /\ (e.outfile = "none" => r.outfile = "none")
  /\ (e.outfile = "empty" => r.outfile \in {"empty", "none", "stale"})   \* a failed run may leave an empty or the old file, never CSS
  /\ ("error" \in ToSet(e.stderr) => r.errmatches)               \* stderr ends with the rendered library error
  /\ ("ioerror" \in ToSet(e.stderr) => r.stderrnonempty)
  /\ (("warning" \in ToSet(e.stderr)) = r.haswarning)             \* warnings on stderr iff not quiet
  /\ (e.stderr = <<>> => ~r.stderrnonempty)
  /\ ~r.warninginoutput                                          \* never in the CSS

Init == l = 1
Observe == l <= Len(Rec) /\ (Allowed(Rec[l]) = TRUE) /\ l' = l + 1
Reject  == /\ l <= Len(Rec) /\ (Allowed(Rec[l]) = FALSE)
           /\ PrintT(<<"REJECT", ToJson([id |-> Rec[l].id])>>) /\ l' = l + 1
Next == Observe \/ Reject
Spec == Init /\ [][Next]_l
Consumed == (TLCGet("stats").diameter - 1 = Len(Rec)) \/ Print(<<"NOTE", "trace not consumed">>, FALSE)
=============================================================================
