------------------------------- MODULE Selectors -------------------------------
(* CSS selectors and what they match (C10, C11).                               *)
(* Element: [type, cls] with cls a set of class-like atoms.  A DOM is a        *)
(* sequence of nodes [el, parent] (parent = 0 for the root, parents come       *)
(* first, siblings are ordered by position).                                   *)
(* Selector list = sequence of complex selectors; complex = sequence of        *)
(* [comb, cmp] (comb of the first is ""); compound cmp = [type ("" = any),     *)
(* cls (sequence of classes), nots, iss (sequences of selector lists)].        *)
(* Matching can be done against "credited" class sets (C10): credit[n] is the  *)
(* class set element n counts as having.                                       *)
EXTENDS Naturals, Sequences, FiniteSets

Types == {"a", "b"}
Classes == {"x", "y"}
Elements == [type : Types, cls : SUBSET Classes]

\* DOM shapes (parent vectors); nodes are numbered in document order
Shapes == { <<0>>, <<0, 1>>, <<0, 1, 2>>, <<0, 1, 1>>, <<0, 1, 1, 1>>, <<0, 1, 1, 3>>, <<0, 1, 2, 2>> }
\* used for shapes of three and more nodes: enough to satisfy every compound of the generators' menus
SmallEls == {[type |-> "a", cls |-> {}], [type |-> "a", cls |-> {"x"}], [type |-> "b", cls |-> {"y"}], [type |-> "a", cls |-> {"x", "y"}],
             [type |-> "b", cls |-> {}]}
Doms == UNION { IF Len(sh) < 3
                THEN { [i \in 1..Len(sh) |-> [el |-> els[i], parent |-> sh[i]]] : els \in [1..Len(sh) -> Elements] }
                ELSE { [i \in 1..Len(sh) |-> [el |-> els[i], parent |-> sh[i]]] : els \in [1..Len(sh) -> SmallEls] }
              : sh \in Shapes }

PrevSiblings(dom, n) == {m \in 1..(n - 1) : dom[m].parent = dom[n].parent /\ dom[n].parent # 0}
ImmediatePrev(dom, n) == LET S == PrevSiblings(dom, n) IN IF S = {} THEN 0 ELSE CHOOSE m \in S : \A k \in S : k <= m
RECURSIVE Ancestors(_, _)
Ancestors(dom, n) == IF dom[n].parent = 0 THEN {} ELSE {dom[n].parent} \cup Ancestors(dom, dom[n].parent)

RECURSIVE MatchList(_, _, _, _)
RECURSIVE MatchComplex(_, _, _, _, _)
RECURSIVE MatchCompound(_, _, _, _)

\* credit: function node -> set of classes the node counts as having
MatchCompound(c, dom, n, credit) ==
  /\ (c.type \in {"", "*"} \/ c.type = dom[n].el.type)
  /\ \A i \in 1..Len(c.cls) : c.cls[i] \in credit[n]
  /\ \A i \in 1..Len(c.nots) : ~MatchList(c.nots[i], dom, n, credit)
  /\ \A i \in 1..Len(c.iss) : MatchList(c.iss[i], dom, n, credit)

\* does the prefix cx[1..k] match with its last compound on node n?
MatchComplex(cx, k, dom, n, credit) ==
  /\ MatchCompound(cx[k].cmp, dom, n, credit)
  /\ (k = 1 \/
      LET comb == cx[k].comb IN
      CASE comb = " " -> \E m \in Ancestors(dom, n) : MatchComplex(cx, k - 1, dom, m, credit)
        [] comb = ">" -> dom[n].parent # 0 /\ MatchComplex(cx, k - 1, dom, dom[n].parent, credit)
        [] comb = "+" -> ImmediatePrev(dom, n) # 0 /\ MatchComplex(cx, k - 1, dom, ImmediatePrev(dom, n), credit)
        [] comb = "~" -> \E m \in PrevSiblings(dom, n) : MatchComplex(cx, k - 1, dom, m, credit)
        [] OTHER -> FALSE)

MatchList(sl, dom, n, credit) == \E i \in 1..Len(sl) : MatchComplex(sl[i], Len(sl[i]), dom, n, credit)

Native(dom) == [n \in 1..Len(dom) |-> dom[n].el.cls]
Matches(sl, dom, n) == MatchList(sl, dom, n, Native(dom))

\* --- relations between selector lists, quantified over every element of every DOM --------------
Subsumes(A, B) == \A dom \in Doms : \A n \in 1..Len(dom) : Matches(B, dom, n) => Matches(A, dom, n)      \* A ⊇ B
SameMeaning(A, B) == \A dom \in Doms : \A n \in 1..Len(dom) : Matches(A, dom, n) <=> Matches(B, dom, n)
WithinBoth(U, A, B) == \A dom \in Doms : \A n \in 1..Len(dom) : Matches(U, dom, n) => (Matches(A, dom, n) /\ Matches(B, dom, n))

\* --- @extend: crediting --------------------------------------------------------------------
\* exts: sequence of [extender (selector list), target (a class)]; an element matching an extender counts as having the target
MaxN(a, b) == IF a > b THEN a ELSE b
\* one round of crediting from a given assignment
CreditStep(dom, exts, prev) ==
  [n \in 1..Len(dom) |-> prev[n] \cup {exts[i].target : i \in {j \in 1..Len(exts) : MatchList(exts[j].extender, dom, n, prev)}}]
\* iterated until a round adds nothing; every productive round gives some node one more of the target classes, so
\* nodes x targets rounds always suffice (k is that bound, passed by the caller or larger)
RECURSIVE CreditFix(_, _, _, _)
CreditFix(dom, exts, cur, k) ==
  LET nxt == CreditStep(dom, exts, cur) IN IF nxt = cur \/ k <= 0 THEN cur ELSE CreditFix(dom, exts, nxt, k - 1)
Credit(dom, exts, k) == CreditFix(dom, exts, Native(dom), MaxN(k, Len(dom) * Len(exts)))
\* DOM universe used to judge @extend: as Doms, but four-node shapes carry elements from a smaller alphabet
TinyEls == {[type |-> "a", cls |-> {}], [type |-> "a", cls |-> {"x"}], [type |-> "b", cls |-> {"y"}], [type |-> "b", cls |-> {}]}
ExtDoms == UNION { IF Len(sh) < 3
                   THEN { [i \in 1..Len(sh) |-> [el |-> els[i], parent |-> sh[i]]] : els \in [1..Len(sh) -> Elements] }
                   ELSE IF Len(sh) = 3
                   THEN { [i \in 1..Len(sh) |-> [el |-> els[i], parent |-> sh[i]]] : els \in [1..Len(sh) -> SmallEls] }
                   ELSE { [i \in 1..Len(sh) |-> [el |-> els[i], parent |-> sh[i]]] : els \in [1..Len(sh) -> TinyEls] }
                 : sh \in Shapes }
MatchesCredited(sl, dom, n, exts) == MatchList(sl, dom, n, Credit(dom, exts, Len(exts)))
=============================================================================
