SPECIFICATION Spec
CONSTANTS
  Cats = {"lit", "fuzzy", "mod", "laws", "div", "negdiv"}
  Nums = {1, 2, 3, 5, 7, 10, 22, 100, 355, 999, 1000, 12345, 99999, 100000, 123457, 999999, 1000000}
  Dens = {1, 2, 3, 4, 7, 8, 9, 11, 13, 16, 17, 19, 23, 29, 31, 37, 41, 43, 47, 64, 97, 113, 128, 1000, 2048}
INVARIANTS PrintShape Emit
CHECK_DEADLOCK FALSE
