SPECIFICATION Spec
CONSTANTS
  MaxOuter = 2
  MaxInner = 1
  MaxMid = 0
  Spellings = {"lower"}
  Shapes = {0}
  WithOr = FALSE
  Small = TRUE
INVARIANTS PairSound ListSound EmptyIsRecognised Emit
CHECK_DEADLOCK FALSE
