---------------------------- MODULE Trace_History ----------------------------
(* Validates recorded executions: baseline(j, r) events fix canon[j] (all     *)
(* fresh-process runs of one job must agree), start/finish events of threads  *)
(* must be explained by History.Finish, i.e. carry canon[j].                 *)
EXTENDS Naturals, Sequences, FiniteSets, TLC, Json, IOUtils

VARIABLES l, canon, canonN, run, hist, bad
Rec == ndJsonDeserialize(IOEnv.TRACE)

Init == l = 1 /\ canon = <<>> /\ canonN = <<>> /\ run = <<>> /\ hist = <<>> /\ bad = 0

Known(j) == j \in DOMAIN canon

Baseline == /\ l <= Len(Rec) /\ Rec[l].e = "baseline"
            /\ (Known(Rec[l].j) => canon[Rec[l].j] = Rec[l].r)            \* repeated fresh runs agree
            /\ canon' = (Rec[l].j :> Rec[l].r) @@ canon
            /\ canonN' = (Rec[l].j :> Rec[l].rn) @@ canonN
            /\ l' = l + 1 /\ UNCHANGED <<run, hist, bad>>
Reset == /\ l <= Len(Rec) /\ Rec[l].e = "reset"                            \* a new process / schedule
         /\ run' = <<>> /\ hist' = <<>> /\ l' = l + 1 /\ UNCHANGED <<canon, canonN, bad>>
Start == /\ l <= Len(Rec) /\ Rec[l].e = "start"
         /\ run' = (Rec[l].t :> Rec[l].j) @@ run
         /\ l' = l + 1 /\ UNCHANGED <<canon, canonN, hist, bad>>
FinishOk == /\ l <= Len(Rec) /\ Rec[l].e = "finish"
            /\ Rec[l].t \in DOMAIN run /\ run[Rec[l].t] = Rec[l].j
            /\ Known(Rec[l].j) /\ Rec[l].r = canon[Rec[l].j]              \* History.Finish: r = canon[j]
            /\ hist' = (Rec[l].t :> (IF Rec[l].t \in DOMAIN hist THEN Append(hist[Rec[l].t], Rec[l].j) ELSE <<Rec[l].j>>)) @@ hist
            /\ l' = l + 1 /\ UNCHANGED <<canon, canonN, run, bad>>
\* unique-id(): the one permitted source of variation - n calls within one compilation give n distinct valid identifiers
UidsOk == /\ l <= Len(Rec) /\ Rec[l].e = "uids"
          /\ Rec[l].distinct = Rec[l].n /\ Rec[l].valid = Rec[l].n
          /\ l' = l + 1 /\ UNCHANGED <<canon, canonN, run, hist, bad>>
Reject == /\ l <= Len(Rec)
          /\ \/ (Rec[l].e = "uids" /\ ~(Rec[l].distinct = Rec[l].n /\ Rec[l].valid = Rec[l].n))
             \/ (Rec[l].e = "finish" /\ ~(Rec[l].t \in DOMAIN run /\ run[Rec[l].t] = Rec[l].j /\ Known(Rec[l].j) /\ Rec[l].r = canon[Rec[l].j]))
             \/ (Rec[l].e = "baseline" /\ Known(Rec[l].j) /\ canon[Rec[l].j] # Rec[l].r)
          /\ PrintT(<<"REJECT", ToJson([line |-> l, id |-> Rec[l].id, job |-> Rec[l].j,
                                         \* explained by the named deviation D_identifier_order (same words, other order)?
                                         bydev |-> Known(Rec[l].j) /\ canonN[Rec[l].j] = Rec[l].rn,
                                         history |-> IF Rec[l].e = "finish" /\ Rec[l].t \in DOMAIN hist THEN hist[Rec[l].t] ELSE <<>>])>>)
          /\ bad' = bad + 1 /\ l' = l + 1 /\ UNCHANGED <<canon, canonN, run, hist>>
Next == Baseline \/ Reset \/ Start \/ FinishOk \/ UidsOk \/ Reject
Spec == Init /\ [][Next]_<<l, canon, canonN, run, hist, bad>>
Consumed == (TLCGet("stats").diameter - 1 = Len(Rec)) \/ Print(<<"NOTE", "trace not consumed">>, FALSE)
=============================================================================
