-------------------------------- MODULE MC_Color --------------------------------
(* Generator for C15: a colour (lattice point, named colour or short hex) and   *)
(* one function case are chosen by actions; the expectation is the set of        *)
(* admissible channel values and the exact alpha computed by Color.tla.          *)
EXTENDS Color, ColorNames, TLC, Json

CONSTANTS Levels, Group, Alphas        \* Group selects a family of cases; Alphas in tenths

VARIABLES stage, rgb, a0, fn, p
vars == <<stage, rgb, a0, fn, p>>

QTxt(q) == "math.div(" \o (IF q[1] < 0 THEN "-" \o ToString(0 - q[1]) ELSE ToString(q[1])) \o ", " \o ToString(q[2]) \o ")"
Base == IF a0 = One THEN "rgb(" \o ToString(rgb[1]) \o ", " \o ToString(rgb[2]) \o ", " \o ToString(rgb[3]) \o ")"
        ELSE "rgba(" \o ToString(rgb[1]) \o ", " \o ToString(rgb[2]) \o ", " \o ToString(rgb[3]) \o ", " \o QTxt(a0) \o ")"

Fns ==
  CASE Group = "hsl" -> {"hslrt", "adjust-hue", "lighten", "darken", "saturate", "desaturate", "grayscale", "complement", "complement2",
                          "invert", "invert2"}
    [] Group = "alpha" -> {"opacify", "transparentize", "adjust-alpha", "adjust-light-alpha", "change-alpha", "scale-alpha", "fade-in"}
    [] Group = "mix" -> {"mix", "adjust-red", "change-red", "rgb-range", "hsl-range"}
    [] Group = "hwb" -> {"hwb"}
    [] OTHER -> {}
Params(f) ==
  CASE f = "adjust-hue" -> {0, 60, 120, 180, -60, -300, 360, 420, -420, -250}
    [] f \in {"lighten", "darken", "saturate", "desaturate"} -> {0, 10, 50, 100}
    [] f \in {"opacify", "transparentize", "adjust-alpha", "adjust-light-alpha", "fade-in"} -> {0, 3, 7, 10, -9}    \* tenths
    [] f = "change-alpha" -> {0, 5, 10}
    [] f = "scale-alpha" -> {50, -50, 100}
    [] f = "mix" -> {0, 25, 50, 100}
    [] f \in {"adjust-red", "change-red"} -> {200, 10, -200}
    [] f = "hwb" -> {0, 20, 50, 80}
    [] OTHER -> {0}

Init == stage = 0 /\ rgb = <<0, 0, 0>> /\ a0 = One /\ fn = "" /\ p = 0
PickColor(r, g, b, a) == stage = 0 /\ rgb' = <<r, g, b>> /\ a0' = a /\ stage' = 1 /\ UNCHANGED <<fn, p>>
PickFn(f) == stage = 1 /\ fn' = f /\ stage' = 2 /\ UNCHANGED <<rgb, a0, p>>
PickParam(x) == stage = 2 /\ p' = x /\ stage' = 3 /\ UNCHANGED <<rgb, a0, fn>>
Next == \/ \E r, g, b \in Levels, a \in Alphas : PickColor(r, g, b, Q(a, 10))
        \/ \E f \in Fns : PickFn(f)
        \/ \E x \in Params(fn) : PickParam(x)
Spec == Init /\ [][Next]_vars

R == rgb[1]
G == rgb[2]
B == rgb[3]
Pct(x) == Q(x, 100)
Tenth(x) == Q(x, 10)
HSL == RgbToHsl(R, G, B)
HslArgs(h, s, l) == QTxt(h) \o " * 1deg, " \o QTxt(QMul(s, Q(100, 1))) \o " * 1%, " \o QTxt(QMul(l, Q(100, 1))) \o " * 1%"

Expr ==
  CASE fn = "hslrt" -> "hsl(" \o HslArgs(HSL.h, HSL.s, HSL.l) \o ")"
    [] fn = "adjust-hue" -> "adjust-hue(" \o Base \o ", " \o ToString(p) \o "deg)"
    [] fn \in {"lighten", "darken", "saturate", "desaturate"} -> fn \o "(" \o Base \o ", " \o ToString(p) \o "%)"
    [] fn = "grayscale" -> "grayscale(" \o Base \o ")"
    [] fn = "complement" -> "complement(" \o Base \o ")"
    [] fn = "complement2" -> "complement(complement(" \o Base \o "))"
    [] fn = "invert" -> "invert(" \o Base \o ")"
    [] fn = "invert2" -> "invert(invert(" \o Base \o "))"
    [] fn = "opacify" -> "opacify(" \o Base \o ", " \o QTxt(Tenth(IF p < 0 THEN 0 ELSE p)) \o ")"
    [] fn = "fade-in" -> "fade-in(" \o Base \o ", " \o QTxt(Tenth(IF p < 0 THEN 0 ELSE p)) \o ")"
    [] fn = "transparentize" -> "transparentize(" \o Base \o ", " \o QTxt(Tenth(IF p < 0 THEN 0 ELSE p)) \o ")"
    [] fn = "adjust-alpha" -> "adjust-color(" \o Base \o ", $alpha: " \o QTxt(Tenth(p)) \o ")"
    [] fn = "adjust-light-alpha" -> "adjust-color(" \o Base \o ", $lightness: 10%, $alpha: " \o QTxt(Tenth(p)) \o ")"
    [] fn = "change-alpha" -> "change-color(" \o Base \o ", $alpha: " \o QTxt(Tenth(p)) \o ")"
    [] fn = "scale-alpha" -> "scale-color(" \o Base \o ", $alpha: " \o ToString(p) \o "%)"
    [] fn = "mix" -> "mix(" \o Base \o ", rgb(255, 102, 0), " \o ToString(p) \o "%)"
    [] fn = "adjust-red" -> "adjust-color(" \o Base \o ", $red: " \o ToString(p) \o ")"
    [] fn = "change-red" -> "change-color(" \o Base \o ", $red: " \o ToString(IF p < 0 THEN 0 ELSE IF p > 255 THEN 255 ELSE p) \o ")"
    [] fn = "rgb-range" -> "rgba(" \o ToString(R + 100) \o ", " \o ToString(G - 300) \o ", " \o ToString(B) \o ", 3)"
    [] fn = "hsl-range" -> "hsl(" \o QTxt(HSL.h) \o " * 1deg, 150%, " \o QTxt(QMul(HSL.l, Q(100, 1))) \o " * 1%)"
    [] fn = "hwb" -> "color.hwb(" \o ToString(R) \o "deg " \o ToString(p) \o "% " \o ToString(G % 90) \o "%)"

ClampA(x) == Clamp01(x)
ExpectRgb ==
  CASE fn = "hslrt" -> HslToRgb(HSL.h, HSL.s, HSL.l)
    [] fn = "adjust-hue" -> AdjustHsl(R, G, B, Q(p, 1), Zero, Zero)
    [] fn = "lighten" -> AdjustHsl(R, G, B, Zero, Zero, Pct(p))
    [] fn = "darken" -> AdjustHsl(R, G, B, Zero, Zero, Pct(0 - p))
    [] fn = "saturate" -> AdjustHsl(R, G, B, Zero, Pct(p), Zero)
    [] fn = "desaturate" -> AdjustHsl(R, G, B, Zero, Pct(0 - p), Zero)
    [] fn = "grayscale" -> Grayscale(R, G, B)
    [] fn = "complement" -> Complement(R, G, B)
    [] fn \in {"complement2", "invert2"} -> Exactly(R, G, B)                 \* involutions (ties aside: checked as containment below)
    [] fn = "invert" -> Invert(R, G, B)
    [] fn = "adjust-light-alpha" -> AdjustHsl(R, G, B, Zero, Zero, Pct(10))
    [] fn = "mix" -> Mix(<<R, G, B>>, <<255, 102, 0>>, Pct(p))
    [] fn = "adjust-red" -> Exactly(IF R + p > 255 THEN 255 ELSE IF R + p < 0 THEN 0 ELSE R + p, G, B)
    [] fn = "change-red" -> Exactly(IF p < 0 THEN 0 ELSE IF p > 255 THEN 255 ELSE p, G, B)
    [] fn = "rgb-range" -> Exactly(IF R + 100 > 255 THEN 255 ELSE R + 100, 0, B)
    [] fn = "hsl-range" -> HslToRgb(HSL.h, One, HSL.l)
    [] fn = "hwb" -> HwbToRgb(Q(R, 1), Pct(p), Pct(G % 90))
    [] OTHER -> Exactly(R, G, B)
ExpectAlpha ==
  CASE fn \in {"opacify", "fade-in"} -> ClampA(QAdd(a0, Tenth(IF p < 0 THEN 0 ELSE p)))
    [] fn = "transparentize" -> ClampA(QSub(a0, Tenth(IF p < 0 THEN 0 ELSE p)))
    [] fn \in {"adjust-alpha", "adjust-light-alpha"} -> ClampA(QAdd(a0, Tenth(p)))
    [] fn = "change-alpha" -> Tenth(p)
    [] fn = "scale-alpha" -> IF p >= 0 THEN QAdd(a0, QMul(QSub(One, a0), Pct(p))) ELSE QAdd(a0, QMul(a0, Pct(p)))
    [] fn \in {"rgb-range"} -> One
    [] fn \in {"hslrt", "hsl-range", "hwb"} -> One
    [] OTHER -> a0
\* involutions applied twice may differ by a rounding step of the intermediate colour: leave the channels open there
Loose == fn \in {"complement2"}

RoundTripLaw == (stage >= 1 /\ Group # "hwb") => RoundTripHsl(R, G, B)
Emit == stage = 3 => PrintT(<<"CASE", ToJson([expr |-> Expr, fn |-> fn, r |-> ExpectRgb.r, g |-> ExpectRgb.g, b |-> ExpectRgb.b,
                                             an |-> ExpectAlpha[1], ad |-> ExpectAlpha[2], loose |-> Loose])>>)
=============================================================================
