---------------------------- MODULE ImportSearch ----------------------------
(* Where a Sass @import/@use/@forward URL is looked for, in which order, and *)
(* which file wins (C13).  A URL is a record [dir, base, ext]: the text is    *)
(* dir \o base \o ext, ext is "" or one of .sass/.scss/.css, and base may     *)
(* itself contain dots.  A location is a directory prefix ("" or "x/").       *)
(* Within a location candidates come in priority classes; inside one class    *)
(* at most one file may exist (otherwise Sass reports an ambiguity and the    *)
(* property makes no claim).                                                  *)
EXTENDS Naturals, Sequences, FiniteSets

\* a path and its partial: one priority class
TryPath(d, b) == {d \o b, d \o "_" \o b}

\* name.sass / name.scss (and partials) are one class, name.css the next
WithExts(d, b) == <<TryPath(d, b \o ".sass") \cup TryPath(d, b \o ".scss"), TryPath(d, b \o ".css")>>

\* priority classes for URL u at location loc; forImport adds the import-only variants in front.
\* The directory search (name/index) applies only to URLs without an extension.
FileClasses(loc, u, forImport) ==
  LET d == loc \o u.dir IN
  IF u.ext # ""
  THEN (IF forImport THEN <<TryPath(d, u.base \o ".import" \o u.ext)>> ELSE <<>>) \o <<TryPath(d, u.base \o u.ext)>>
  ELSE (IF forImport THEN WithExts(d, u.base \o ".import") ELSE <<>>) \o WithExts(d, u.base)

IndexClasses(loc, u, forImport) ==
  LET d == loc \o u.dir \o u.base \o "/" IN
  IF u.ext # "" THEN <<>>
  ELSE (IF forImport THEN WithExts(d, "index.import") ELSE <<>>) \o WithExts(d, "index")

Classes(loc, u, forImport) == FileClasses(loc, u, forImport) \o IndexClasses(loc, u, forImport)

\* the directory whose existence may be tested for the index search
IndexDir(loc, u) == loc \o u.dir \o u.base

\* first class (in order) that has an existing file; "" if none
RECURSIVE FirstHit(_, _, _)
FirstHit(cls, files, i) ==
  IF i > Len(cls) THEN ""
  ELSE LET hit == cls[i] \cap files IN
       IF hit # {} THEN CHOOSE p \in hit : TRUE ELSE FirstHit(cls, files, i + 1)

\* locations in order: the importing file's directory, then each load path
RECURSIVE ResolveAt(_, _, _, _, _)
ResolveAt(locs, u, forImport, files, i) ==
  IF i > Len(locs) THEN ""
  ELSE LET p == FirstHit(Classes(locs[i], u, forImport), files, 1) IN
       IF p # "" THEN p ELSE ResolveAt(locs, u, forImport, files, i + 1)

Resolve(locs, u, forImport, files) == ResolveAt(locs, u, forImport, files, 1)

\* no two files of one class at one location
Unambiguous(locs, u, forImport, files) ==
  \A i \in 1..Len(locs) : LET cls == Classes(locs[i], u, forImport) IN
     \A k \in 1..Len(cls) : Cardinality(cls[k] \cap files) <= 1

\* every path the search may test or read
Confinement(locs, u, forImport) ==
  UNION {UNION {Classes(locs[i], u, forImport)[k] : k \in 1..Len(Classes(locs[i], u, forImport))} : i \in 1..Len(locs)}
DirTests(locs, u) == {IndexDir(locs[i], u) : i \in 1..Len(locs)}

\* syntax is chosen from the resolved file's extension
Suffix(p, s) == Len(p) >= Len(s) /\ SubSeq(p, Len(p) - Len(s) + 1, Len(p)) = s
SyntaxOf(p) == IF Suffix(p, ".sass") THEN "sass" ELSE IF Suffix(p, ".css") THEN "css" ELSE "scss"
=============================================================================
