----------------------------- MODULE Trace_Numbers -----------------------------
(* Printing of doubles (C07), validated against observed executions: each      *)
(* event carries the exact decimal expansion of the IEEE double the expression  *)
(* denotes (computed by the harness with correctly rounded double arithmetic)   *)
(* and the text grass printed.  The text must be that expansion rounded to 10   *)
(* fractional digits (either neighbour at an exact tie), without trailing       *)
(* zeros, "+", "-0" or - in compressed mode - a leading zero.                   *)
EXTENDS Decimal, TLC, Json, IOUtils

VARIABLES l
Rec == ndJsonDeserialize(IOEnv.TRACE)

\* r.int, r.frac: digit sequences of the exact value; r.neg
Rounded(r, up) ==
  LET f == r.frac
      head == [i \in 1..10 |-> IF i <= Len(f) THEN f[i] ELSE 0]
      tail == IF Len(f) > 10 THEN SubSeq(f, 11, Len(f)) ELSE <<>>
      gt == Len(tail) > 0 /\ (tail[1] > 5 \/ (tail[1] = 5 /\ \E i \in 2..Len(tail) : tail[i] # 0))
      tie == Len(tail) > 0 /\ tail[1] = 5 /\ \A i \in 2..Len(tail) : tail[i] = 0
      inc == IF gt \/ (tie /\ up) THEN Inc(head, 10) ELSE <<0, head>>
  IN [carry |-> inc[1], frac |-> TrimZeros(inc[2])]

\* add a carry to an integer digit sequence
IntPlus(ds, c) == IF c = 0 THEN ds ELSE LET x == Inc(ds, Len(ds)) IN IF x[1] = 1 THEN <<1>> \o x[2] ELSE x[2]
RECURSIVE StripLead(_)
StripLead(ds) == IF Len(ds) > 1 /\ ds[1] = 0 THEN StripLead(SubSeq(ds, 2, Len(ds))) ELSE ds

TextOf(r, up) ==
  LET x == Rounded(r, up)
      ip == StripLead(IntPlus(r.int, x.carry))
      zero == ip = <<0>> /\ x.frac = <<>>
      sign == IF r.neg /\ ~zero THEN "-" ELSE ""
  IN IF zero THEN "0"
     ELSE IF x.frac = <<>> THEN sign \o DigitsTxt(ip, 1)
     ELSE IF r.compressed /\ ip = <<0>> THEN sign \o "." \o DigitsTxt(x.frac, 1)
     ELSE sign \o DigitsTxt(ip, 1) \o "." \o DigitsTxt(x.frac, 1)

Allowed(r) == r.printed \in {TextOf(r, TRUE), TextOf(r, FALSE)}

Init == l = 1
Observe == l <= Len(Rec) /\ (Allowed(Rec[l]) = TRUE) /\ l' = l + 1
Reject  == /\ l <= Len(Rec) /\ (Allowed(Rec[l]) = FALSE)
           /\ PrintT(<<"REJECT", ToJson([id |-> Rec[l].id, want |-> TextOf(Rec[l], TRUE)])>>) /\ l' = l + 1
Next == Observe \/ Reject
Spec == Init /\ [][Next]_l
Consumed == (TLCGet("stats").diameter - 1 = Len(Rec)) \/ Print(<<"NOTE", "trace not consumed">>, FALSE)
=============================================================================
