--------------------------- MODULE MC_PlainImports ---------------------------
(* Generator for the plain-CSS clause of C13: an @import whose argument is     *)
(* url(...), starts with http://, https:// or //, ends in .css, or carries a   *)
(* media / supports modifier is not a Sass import: it is emitted as a CSS       *)
(* @import rule and nothing is looked up - whatever files exist at the names    *)
(* a Sass import of the same text would have found.                            *)
EXTENDS Naturals, Sequences, FiniteSets, TLC, Json

\* <<id, argument text as written after @import, the URL text that must reappear in the emitted rule>>
Forms == { <<"url", "url(foo)", "url(foo)">>, <<"url-quoted", "url(\"foo.scss\")", "url(\"foo.scss\")">>,
           <<"http", "\"http://x/foo\"", "\"http://x/foo\"">>, <<"https", "\"https://x/foo.scss\"", "\"https://x/foo.scss\"">>,
           <<"protocol-relative", "\"//x/foo\"", "\"//x/foo\"">>, <<"css-ext", "\"foo.css\"", "\"foo.css\"">>,
           <<"media", "\"foo\" screen", "\"foo\" screen">>, <<"media-list", "\"foo\" screen and (a: b), print", "\"foo\" screen and (a: b), print">>,
           <<"supports", "\"foo\" supports(a: b)", "\"foo\" supports(a: b)">> }
\* files a Sass import of "foo" / "foo.css" / "x/foo" would resolve to
Candidates == {"foo.scss", "_foo.scss", "foo.sass", "foo.css", "foo/index.scss", "x/foo.scss", "foo.css.scss"}
IsPlain(form) == TRUE          \* every form of the table is plain CSS by the rule above; a bare "foo" is not
Where == {"top", "nested", "second"}   \* at top level, inside a style rule, after a Sass import in the same rule

VARIABLES stage, form, files, where
vars == <<stage, form, files, where>>
Init == stage = "form" /\ form = <<"", "", "">> /\ files = {} /\ where = "top"
PickForm == stage = "form" /\ \E f \in Forms, w \in Where : form' = f /\ where' = w /\ stage' = "files" /\ UNCHANGED files
AddFile == stage = "files" /\ Cardinality(files) < 2 /\ \E p \in Candidates \ files : files' = files \cup {p} /\ UNCHANGED <<stage, form, where>>
Finish == stage = "files" /\ stage' = "done" /\ UNCHANGED <<form, files, where>>
Next == PickForm \/ AddFile \/ Finish
Spec == Init /\ [][Next]_vars

Sheet == CASE where = "top" -> <<"@import " \o form[2] \o ";", "a { b: c; }">>
           [] where = "nested" -> <<"a { @import " \o form[2] \o "; b: c; }">>
           [] where = "second" -> <<"@import \"other\", " \o form[2] \o ";", "a { b: c; }">>
Emit == stage = "done" => PrintT(<<"CASE", ToJson([form |-> form[1], text |-> form[3], where |-> where, files |-> files, sheet |-> Sheet,
                                                   plain |-> IsPlain(form)])>>)
=============================================================================
