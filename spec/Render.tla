------------------------------- MODULE Render -------------------------------
(* Two printers for one flat program: SCSS and the indented syntax.  One     *)
(* instruction is one source line in SCSS ("end" prints "}"); the indented   *)
(* printer omits "end" lines, so it also reports the line each instruction    *)
(* lands on.  The harness joins lines with "\n" and knows no Sass.           *)
EXTENDS Values

RECURSIVE ETxt(_)
RECURSIVE ESeqTxt(_, _)
ESeqTxt(es, i) == IF i > Len(es) THEN "" ELSE
                  IF i = Len(es) THEN ETxt(es[i]) ELSE ETxt(es[i]) \o ", " \o ESeqTxt(es, i + 1)

\* operands of a flat chain are atoms or parenthesised
Atom(e) == IF e.t = "flat" THEN "(" \o ETxt(e) \o ")" ELSE ETxt(e)

RECURSIVE FlatTxt(_, _, _)
FlatTxt(xs, ops, i) == IF i > Len(ops) THEN Atom(xs[i])
                       ELSE Atom(xs[i]) \o " " \o ops[i] \o " " \o FlatTxt(xs, ops, i + 1)

ArgsTxt(pos, named) ==
  LET ps == ESeqTxt(pos, 1)
      ns == JoinT([i \in 1..Len(named) |-> "$" \o named[i][1] \o ": " \o ETxt(named[i][2])], ", ", 1)
  IN IF Len(pos) > 0 /\ Len(named) > 0 THEN ps \o ", " \o ns ELSE ps \o ns

ETxt(e) ==
  CASE e.t = "int"  -> IF e.v < 0 THEN "(" \o IntText(e.v) \o ")" ELSE IntText(e.v)
    [] e.t = "str"  -> e.v
    [] e.t = "qstr" -> "\"" \o e.v \o "\""
    [] e.t = "bool" -> IF e.v THEN "true" ELSE "false"
    [] e.t = "null" -> "null"
    [] e.t = "var"  -> "$" \o e.x
    [] e.t = "bin"  -> "(" \o ETxt(e.l) \o " " \o e.op \o " " \o ETxt(e.r) \o ")"
    [] e.t = "flat" -> FlatTxt(e.xs, e.ops, 1)
    [] e.t = "not"  -> "not " \o Atom(e.e)
    [] e.t = "neg"  -> "-" \o Atom(e.e)
    [] e.t = "ifx"  -> "if(" \o ETxt(e.c) \o ", " \o ETxt(e.a) \o ", " \o ETxt(e.b) \o ")"
    [] e.t = "listx" -> IF Len(e.items) = 0 THEN "()"
                        ELSE IF Len(e.items) = 1 /\ e.sep = "comma" THEN "(" \o ETxt(e.items[1]) \o ",)"
                        ELSE "(" \o JoinT([i \in 1..Len(e.items) |-> ETxt(e.items[i])], IF e.sep = "comma" THEN ", " ELSE " ", 1) \o ")"
    [] e.t = "mapx" -> "(" \o JoinT([i \in 1..Len(e.pairs) |-> ETxt(e.pairs[i][1]) \o ": " \o ETxt(e.pairs[i][2])], ", ", 1) \o ")"
    [] e.t = "call" -> e.f \o "(" \o ArgsTxt(e.pos, e.named) \o ")"

ParamsTxt(ins) ==
  LET ps == [i \in 1..Len(ins.params) |->
               "$" \o ins.params[i].n \o (IF ins.params[i].hasdef THEN ": " \o ETxt(ins.params[i].def) ELSE "")]
      all == IF ins.rest = "" THEN ps ELSE Append(ps, "$" \o ins.rest \o "...")
  IN JoinT(all, ", ", 1)

\* the head of an instruction, without block/terminator punctuation
HeadOf(ins) ==
  CASE ins.op = "decl" -> "$" \o ins.x \o ": " \o ETxt(ins.e) \o (IF ins.d THEN " !default" ELSE "") \o (IF ins.g THEN " !global" ELSE "")
    [] ins.op = "prop" -> ins.p \o ": " \o ETxt(ins.e)
    [] ins.op = "debug" -> "@debug " \o ETxt(ins.e)
    [] ins.op = "warn" -> "@warn " \o ETxt(ins.e)
    [] ins.op = "error" -> "@error " \o ETxt(ins.e)
    [] ins.op = "rule" -> ins.sel
    [] ins.op = "if" -> "@if " \o ETxt(ins.c)
    [] ins.op = "elseif" -> "@else if " \o ETxt(ins.c)
    [] ins.op = "else" -> "@else"
    [] ins.op = "for" -> "@for $" \o ins.x \o " from " \o ETxt(ins.from) \o (IF ins.incl THEN " through " ELSE " to ") \o ETxt(ins.to)
    [] ins.op = "each" -> "@each " \o JoinT([i \in 1..Len(ins.xs) |-> "$" \o ins.xs[i]], ", ", 1) \o " in " \o ETxt(ins.e)
    [] ins.op = "while" -> "@while " \o ETxt(ins.c)
    [] ins.op = "mixin" -> "@mixin " \o ins.name \o "(" \o ParamsTxt(ins) \o ")"
    [] ins.op = "function" -> "@function " \o ins.name \o "(" \o ParamsTxt(ins) \o ")"
    [] ins.op = "include" ->
         "@include " \o ins.name \o
         (IF Len(ins.pos) + Len(ins.named) > 0 THEN "(" \o ArgsTxt(ins.pos, ins.named) \o ")" ELSE "") \o
         (IF ins.block /\ Len(ins.using) > 0
          THEN " using (" \o JoinT([i \in 1..Len(ins.using) |-> "$" \o ins.using[i]], ", ", 1) \o ")" ELSE "")
    [] ins.op = "content" -> "@content" \o (IF Len(ins.args) > 0 THEN "(" \o ESeqTxt(ins.args, 1) \o ")" ELSE "")
    [] ins.op = "return" -> "@return " \o ETxt(ins.e)
    [] ins.op = "end" -> "}"

IsBlock(ins) == ins.op \in {"rule", "if", "elseif", "else", "for", "each", "while", "mixin", "function"}
                \/ (ins.op = "include" /\ ins.block)

RECURSIVE Pad(_)
Pad(d) == IF d <= 0 THEN "" ELSE "  " \o Pad(d - 1)

\* depth of instruction i = number of unclosed blocks before it
RECURSIVE DepthAt(_, _)
DepthAt(p, i) == IF i <= 1 THEN 0
                 ELSE LET d == DepthAt(p, i - 1) IN
                      IF IsBlock(p[i - 1]) THEN d + 1
                      ELSE IF p[i - 1].op = "end" THEN d - 1 ELSE d
LineDepth(p, i) == IF p[i].op = "end" THEN DepthAt(p, i) - 1 ELSE DepthAt(p, i)

ScssLines(p) ==
  [i \in 1..Len(p) |->
     Pad(LineDepth(p, i)) \o HeadOf(p[i]) \o
     (IF p[i].op = "end" THEN "" ELSE IF IsBlock(p[i]) THEN " {" ELSE ";")]

\* indented syntax: no "end" lines
NonEnd(p) == SelectSeq([i \in 1..Len(p) |-> i], LAMBDA i : p[i].op # "end")
SassLines(p) == LET ix == NonEnd(p) IN [k \in 1..Len(ix) |-> Pad(LineDepth(p, ix[k])) \o HeadOf(p[ix[k]])]
\* line on which instruction i lands in the indented rendering
SassLineOf(p, i) == Cardinality({j \in 1..i : p[j].op # "end"})
=============================================================================
