-------------------------------- MODULE Grass --------------------------------
(* The compilation pipeline as one machine.  Phases and the only ways a       *)
(* compilation may end (C01): Finish (CSS) or Fail (a structured error).      *)
(* Panics, aborts and hangs are not actions of this machine, so an observed   *)
(* execution that ends in one is not a behaviour of the specification.        *)
(* The per-property modules (Eval, CssTree, Media, ModuleGraph, ImportSearch, *)
(* Diag, Cli, History) refine what happens inside the phases.                 *)
EXTENDS Naturals, Sequences

VARIABLES phase, result
gvars == <<phase, result>>

Phases == {"idle", "read", "parse", "eval", "serialize", "done", "failed"}
ErrorKinds == {"parse", "io", "utf8"}                  \* the public error kinds

GInit == phase = "idle" /\ result = "none"
ReadEntry   == phase = "idle" /\ phase' = "read" /\ UNCHANGED result
Decode      == phase = "read" /\ phase' = "parse" /\ UNCHANGED result
Parse       == phase = "parse" /\ phase' = "eval" /\ UNCHANGED result
Evaluate    == phase = "eval" /\ phase' = "serialize" /\ UNCHANGED result
Finish      == phase = "serialize" /\ phase' = "done" /\ result' = "css"
\* any phase may fail, but only with a structured error of a public kind
Fail(k)     == /\ phase \in {"read", "parse", "eval", "serialize"} /\ k \in ErrorKinds
               /\ (k = "io" => phase = "read") /\ (k = "utf8" => phase \in {"read", "eval"})
               /\ phase' = "failed" /\ result' = k
GNext == ReadEntry \/ Decode \/ Parse \/ Evaluate \/ Finish \/ \E k \in ErrorKinds : Fail(k)
GSpec == GInit /\ [][GNext]_gvars

Terminal == phase \in {"done", "failed"}
\* the outcomes the machine can end with
Outcomes == {"css"} \cup ErrorKinds
TotalityShape == Terminal => result \in Outcomes
=============================================================================
