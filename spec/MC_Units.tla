-------------------------------- MODULE MC_Units --------------------------------
(* Generator for C08: an operation and two (or three) operands with units,     *)
(* chosen one per action; the expectation is computed from Units.             *)
EXTENDS Units, TLC, Json

CONSTANTS Ops, M1, M2, UnitsUsed

VARIABLES stage, op, u1, u2, u3
vars == <<stage, op, u1, u2, u3>>

Init == stage = 0 /\ op = "" /\ u1 = "" /\ u2 = "" /\ u3 = ""
PickOp(o) == stage = 0 /\ op' = o /\ stage' = 1 /\ UNCHANGED <<u1, u2, u3>>
PickU1(u) == stage = 1 /\ u1' = u /\ stage' = 2 /\ UNCHANGED <<op, u2, u3>>
PickU2(u) == stage = 2 /\ u2' = u /\ stage' = (IF op \in {"min3", "max3", "divmul", "muldiv"} THEN 3 ELSE 4) /\ UNCHANGED <<op, u1, u3>>
PickU3(u) == /\ stage = 3 /\ u3' = u /\ stage' = 4 /\ UNCHANGED <<op, u1, u2>>
             /\ (op \in {"min3", "max3"} => {u1, u2, u} \subseteq Convertibles /\ Convertible(u1, u2) /\ Convertible(u2, u)) \* inside one class
             /\ (op \in {"divmul", "muldiv"} => {u2, u} \subseteq Convertibles /\ Convertible(u2, u)
                                                 /\ ~Convertible(u1, u2) /\ u1 # u2)   \* which of two candidates cancels is left open
Next == (\E o \in Ops : PickOp(o)) \/ (\E u \in UnitsUsed \cup {""} : PickU1(u) \/ PickU2(u) \/ PickU3(u))
Spec == Init /\ [][Next]_vars

----------------------------------------------------------------------------
Num(q, pe, u) == [k |-> "num", n |-> q[1], d |-> q[2], pe |-> pe, unit |-> u]
Bool(b) == [k |-> "bool", v |-> b]
Str(s) == [k |-> "str", v |-> s]
Err == [k |-> "error"]

A == QInt(M1)
B == QInt(M2)
C3 == QInt(3)

\* b expressed in a's unit (when convertible): B * Factor(u2, u1)
BinA == LET f == Factor(u2, u1) IN [q |-> QMul(B, f.q), pe |-> f.pe]
Comparable == u1 = "" \/ u2 = "" \/ Convertible(u1, u2)
ResultUnit == IF u1 = "" THEN u2 ELSE u1

\* compare A u1 with B u2 when they may involve pi: only the rational case is decided exactly; with pi the checker
\* compares numerically
Expect ==
  CASE op \in {"+", "-", "%"} ->
         IF ~Comparable THEN Err
         ELSE IF u1 = "" \/ u2 = "" \/ u1 = u2 THEN
              Num(CASE op = "+" -> QAdd(A, B) [] op = "-" -> QSub(A, B) [] op = "%" -> QMod(A, B), 0, ResultUnit)
         ELSE IF BinA.pe # 0 THEN [k |-> "pi", op |-> op, q |-> BinA.q, pe |-> BinA.pe, unit |-> u1]
         ELSE Num(CASE op = "+" -> QAdd(A, BinA.q) [] op = "-" -> QSub(A, BinA.q) [] op = "%" -> QMod(A, BinA.q), 0, u1)
    [] op \in {"<", ">", "<=", ">="} ->
         IF ~Comparable THEN Err
         ELSE IF u1 = "" \/ u2 = "" \/ u1 = u2 THEN Bool(CASE op = "<" -> QLt(A, B) [] op = ">" -> QLt(B, A)
                                                           [] op = "<=" -> ~QLt(B, A) [] op = ">=" -> ~QLt(A, B))
         ELSE IF BinA.pe # 0 THEN [k |-> "pi", op |-> op, q |-> BinA.q, pe |-> BinA.pe, unit |-> u1]
         ELSE Bool(CASE op = "<" -> QLt(A, BinA.q) [] op = ">" -> QLt(BinA.q, A)
                     [] op = "<=" -> ~QLt(BinA.q, A) [] op = ">=" -> ~QLt(A, BinA.q))
    [] op \in {"==", "!="} ->
         LET eq == IF u1 = u2 THEN A = B
                   ELSE IF u1 = "" \/ u2 = "" THEN FALSE                    \* a unitless number never equals one with a unit
                   ELSE IF Convertible(u1, u2) THEN (BinA.pe = 0 /\ A = BinA.q)
                   ELSE FALSE
         IN Bool(IF op = "==" THEN eq ELSE ~eq)
    [] op = "compatible" -> Bool(Comparable)
    [] op = "unit" -> Str("\"" \o u1 \o "\"")
    [] op = "*" -> IF u1 = "" \/ u2 = "" THEN Num(QMul(A, B), 0, ResultUnit)
                   ELSE Err                                                \* a product of two units cannot be emitted
    [] op = "unit*" -> IF u1 = "" \/ u2 = "" THEN Str("\"" \o ResultUnit \o "\"") ELSE Str("\"" \o u1 \o "*" \o u2 \o "\"")
    [] op = "div" -> IF u2 = "" THEN Num(QDiv(A, B), 0, u1)
                     ELSE IF u1 = u2 THEN Num(QDiv(A, B), 0, "")
                     ELSE IF Convertible(u1, u2) THEN
                          (IF BinA.pe # 0 THEN [k |-> "pi", op |-> op, q |-> BinA.q, pe |-> BinA.pe, unit |-> ""]
                           ELSE Num(QDiv(A, BinA.q), 0, ""))                \* convertible units cancel
                     ELSE Err                                              \* 1/u or u1/u2 cannot be emitted
    [] op = "unitdiv" -> IF u2 = "" THEN Str("\"" \o u1 \o "\"")
                         ELSE IF Convertible(u1, u2) \/ u1 = u2 THEN Str("\"\"")
                         ELSE IF u1 = "" THEN Str("\"" \o u2 \o "^-1\"")
                         ELSE Str("\"" \o u1 \o "/" \o u2 \o "\"")
    [] op \in {"min", "max"} ->
         IF (u1 = "") # (u2 = "") THEN [k |-> "open"]                        \* unitless next to a unit: left open
         ELSE IF ~(u1 = u2 \/ Convertible(u1, u2)) THEN Err
         ELSE IF u1 = u2 THEN (IF (op = "min") = QLt(A, B) THEN Num(A, 0, u1) ELSE Num(B, 0, u2))
         ELSE IF BinA.pe # 0 THEN [k |-> "pi", op |-> op, q |-> BinA.q, pe |-> BinA.pe, unit |-> u1]
         ELSE IF A = BinA.q THEN [k |-> "open"]
         ELSE IF (op = "min") = QLt(A, BinA.q) THEN Num(A, 0, u1) ELSE Num(B, 0, u2)    \* the chosen argument keeps its own unit
    [] op \in {"min3", "max3"} ->
         \* three arguments with magnitude 1 (and the third 3) in one class: pick by absolute size
         IF UnitTable[u1][3] # 0 \/ UnitTable[u2][3] # 0 \/ UnitTable[u3][3] # 0 THEN [k |-> "open"]
         ELSE LET s1 == QMul(QInt(1), UnitTable[u1][2])  s2 == QMul(QInt(1), UnitTable[u2][2])  s3 == QMul(C3, UnitTable[u3][2])
                  lt(x, y) == IF op = "min3" THEN QLt(x, y) ELSE QLt(y, x)
              IN IF s1 = s2 \/ s2 = s3 \/ s1 = s3 THEN [k |-> "open"]
                 ELSE IF lt(s1, s2) /\ lt(s1, s3) THEN Num(QInt(1), 0, u1)
                 ELSE IF lt(s2, s1) /\ lt(s2, s3) THEN Num(QInt(1), 0, u2)
                 ELSE Num(C3, 0, u3)
    [] op = "divmul" ->           \* math.div(A u1, B u2) * 3 u3, u2 ~ u3 : the convertible pair cancels
         LET f == Factor(u3, u2) IN
         IF f.pe # 0 THEN [k |-> "open"] ELSE Num(QMul(QDiv(A, B), QMul(C3, f.q)), 0, u1)
    [] op = "muldiv" ->           \* math.div(A u1 * 3 u3, B u2)
         LET f == Factor(u3, u2) IN
         IF f.pe # 0 THEN [k |-> "open"] ELSE Num(QMul(QDiv(A, B), QMul(C3, f.q)), 0, u1)

N(m, u) == ToString(m) \o u
Expr ==
  CASE op \in {"+", "-", "%", "<", ">", "<=", ">=", "==", "!=", "*"} -> N(M1, u1) \o " " \o op \o " " \o N(M2, u2)
    [] op = "compatible" -> "math.compatible(" \o N(M1, u1) \o ", " \o N(M2, u2) \o ")"
    [] op = "unit" -> "inspect(math.unit(" \o N(M1, u1) \o "))"
    [] op = "unit*" -> "inspect(math.unit(" \o N(M1, u1) \o " * " \o N(M2, u2) \o "))"
    [] op = "div" -> "math.div(" \o N(M1, u1) \o ", " \o N(M2, u2) \o ")"
    [] op = "unitdiv" -> "inspect(math.unit(math.div(" \o N(M1, u1) \o ", " \o N(M2, u2) \o ")))"
    [] op = "min" -> "math.min(" \o N(M1, u1) \o ", " \o N(M2, u2) \o ")"
    [] op = "max" -> "math.max(" \o N(M1, u1) \o ", " \o N(M2, u2) \o ")"
    [] op = "min3" -> "min(" \o N(1, u1) \o ", " \o N(1, u2) \o ", " \o N(3, u3) \o ")"
    [] op = "max3" -> "max(" \o N(1, u1) \o ", " \o N(1, u2) \o ", " \o N(3, u3) \o ")"
    [] op = "divmul" -> "math.div(" \o N(M1, u1) \o ", " \o N(M2, u2) \o ") * " \o N(3, u3)
    [] op = "muldiv" -> "math.div(" \o N(M1, u1) \o " * " \o N(3, u3) \o ", " \o N(M2, u2) \o ")"

Emit == stage = 4 => PrintT(<<"CASE", ToJson([expr |-> Expr, op |-> op, u |-> <<u1, u2, u3>>, expect |-> Expect,
                                             bfactor |-> IF op = "%" /\ u1 # u2 /\ Convertible(u1, u2) /\ BinA.pe = 0
                                                         THEN Factor(u2, u1).q ELSE <<1, 1>>])>>)
=============================================================================
